#!/usr/bin/env python3
"""Hand-written mutation corpus (DESIGN.md section 7): small source edits of
/repo/lomond, each meant to break one property.  For each mutant a scratch
copy of the CURRENT /repo working tree (outside /repo and /verif, removed
afterwards) is edited, the unit suite is run (information: mutants the suite
already kills are marked) and the property's quick check is run with
LOMOND_REPO pointing at the copy.

usage: mutants.py [--only substring] [--all-checks]
Writes /verif/mutants/RESULTS.json.
"""
import argparse
import json
import os
import shutil
import subprocess
import sys

VERIF = os.path.dirname(os.path.dirname(os.path.abspath(__file__)))
SCRATCH = '/tmp/lomond-mutant'

M = []


def mut(name, prop, path, old, new, count=1):
    M.append({'name': name, 'prop': prop, 'path': path, 'old': old,
              'new': new, 'count': count})


# ---- C01
mut('C01-frames-not-cleared', 'C01', 'lomond/stream.py',
    "                    del self._frames[:]\n", "")
mut('C01-len64-read-as-32', 'C01', 'lomond/frame_parser.py',
    "(payload_length,) = self.unpack64((yield self.read(8)))",
    "(payload_length,) = self.unpack64((yield self.read(8)))\n"
    "                payload_length &= 0xffff")
mut('C01-empty-fragment-dropped', 'C01', 'lomond/stream.py',
    "                self._frames.append(frame)\n",
    "                if frame.payload or frame.fin or not self._frames:\n"
    "                    self._frames.append(frame)\n")
mut('C01-control-frame-joins-fragments', 'C01', 'lomond/stream.py',
    "                yield self.build_message([frame])\n",
    "                yield self.build_message([frame])\n"
    "                if frame.is_pong and self._frames:\n"
    "                    self._frames.append(frame)\n")
# ---- C02
mut('C02-tail-after-header-dropped-when-short', 'C02', 'lomond/parser.py',
    "                    data = _buffer[sep_index:]\n",
    "                    data = _buffer[sep_index:]\n"
    "                    if len(data) == 1:\n"
    "                        data = b''\n")
mut('C02-remaining-off-by-one-on-split', 'C02', 'lomond/parser.py',
    "                    self._awaiting.remaining = remaining\n",
    "                    self._awaiting.remaining = remaining if chunk_size "
    "else remaining - 1\n")
# ---- C03
mut('C03-length-126-in-7bit-form', 'C03', 'lomond/frame.py',
    "        if length < 126:\n", "        if length <= 126:\n")
mut('C03-mask-lanes-rotated-for-long', 'C03', 'lomond/mask.py',
    "    data[3::4] = data[3::4].translate(d)\n",
    "    data[3::4] = data[3::4].translate(d if len(data) != 127 else a)\n")
mut('C03-ping-length-check-off-by-one', 'C03', 'lomond/websocket.py',
    "            raise ValueError('ping data should be <= 125 bytes')",
    "            raise ValueError('ping data should be <= 125 bytes')"
    .replace('raise', 'pass  # raise'))
# ---- C04
mut('C04-opcodes-b-f-not-reserved', 'C04', 'lomond/opcode.py',
    "    Opcode.RESERVED10,\n", "")
mut('C04-rsv3-ignored', 'C04', 'lomond/frame.py',
    "        if self.rsv1 or self.rsv2 or self.rsv3:\n",
    "        if self.rsv1 or self.rsv2:\n")
mut('C04-close-code-1005-allowed', 'C04', 'lomond/status.py',
    "        1004, 1005, 1006, 1014, 1015, 1016\n",
    "        1004, 1006, 1014, 1015, 1016\n")
mut('C04-protocol-error-keeps-feeding', 'C04', 'lomond/websocket.py',
    "            self.close(Status.PROTOCOL_ERROR, six.text_type(error))\n"
    "            self.force_disconnect()\n",
    "            self.close(Status.PROTOCOL_ERROR, six.text_type(error))\n")
# ---- C05
mut('C05-dfa-entry-accepts-ed-a0', 'C05', 'lomond/utf8validator.py',
    "    0xa, 0x3, 0x3, 0x3, 0x3, 0x3, 0x3, 0x3, 0x3, 0x3, 0x3, 0x3, 0x3, 0x4, "
    "0x3, 0x3,  # e0..ef",
    "    0xa, 0x3, 0x3, 0x3, 0x3, 0x3, 0x3, 0x3, 0x3, 0x3, 0x3, 0x3, 0x3, 0x3, "
    "0x3, 0x3,  # e0..ef")
mut('C05-no-incremental-validation', 'C05', 'lomond/frame_parser.py',
    "            return self.read_utf8(length, self._utf8_validator)\n",
    "            return self.read(length)\n")
mut('C05-final-decode-lenient', 'C05', 'lomond/message.py',
    "            text = payload.decode('utf-8')\n",
    "            text = payload.decode('utf-8', 'replace' if len(payload) > "
    "4000 else 'strict')\n")
# ---- C06
mut('C06-tail-strip-5', 'C06', 'lomond/compression.py',
    "        )[:-4]\n", "        )[:-5]\n")
mut('C06-window-keys-swapped', 'C06', 'lomond/compression.py',
    '        decompress_wbits = cls.get_wbits(options, "server_max_window_bits")\n'
    '        compress_wbits = cls.get_wbits(options, "client_max_window_bits")\n',
    '        decompress_wbits = cls.get_wbits(options, "client_max_window_bits")\n'
    '        compress_wbits = cls.get_wbits(options, "server_max_window_bits")\n')
mut('C06-reset-flags-swapped', 'C06', 'lomond/compression.py',
    '        reset_decompress = "server_no_context_takeover" in options\n'
    '        reset_compress = "client_no_context_takeover" in options\n',
    '        reset_decompress = "client_no_context_takeover" in options\n'
    '        reset_compress = "server_no_context_takeover" in options\n')
mut('C06-quoted-value-not-unquoted', 'C06', 'lomond/extension.py',
    "        value = value.strip().strip('\"')\n",
    "        value = value.strip()\n")
# ---- C07
mut('C07-regular-not-gated-on-ready', 'C07', 'lomond/session.py',
    "            if self._ready:\n                return self._regular(",
    "            if self._ready or self._start_time is None and "
    "websocket.is_closing:\n                return self._regular(")
mut('C07-no-disconnected-after-force', 'C07', 'lomond/session.py',
    "        except _ForceDisconnect as error:\n"
    "            self._close_socket()\n"
    "            yield events.Disconnected('disconnected; {}'.format(error))\n",
    "        except _ForceDisconnect as error:\n"
    "            self._close_socket()\n"
    "            if not websocket.is_closing:\n"
    "                yield events.Disconnected('disconnected; {}'.format(error))\n")
# ---- C08
mut('C08-echo-sent-twice', 'C08', 'lomond/websocket.py',
    "            yield events.Closing(message.code, message.reason)\n"
    "            self.close(message.code, message.reason)\n",
    "            yield events.Closing(message.code, message.reason)\n"
    "            self._send_close(message.code, message.reason)\n"
    "            self.close(message.code, message.reason)\n")
mut('C08-echo-drops-code', 'C08', 'lomond/websocket.py',
    "            self.close(message.code, message.reason)\n"
    "            self.state.closing = True\n",
    "            self.close(message.code or Status.NORMAL, message.reason)\n"
    "            self.state.closing = True\n")
# ---- C09
mut('C09-recv-error-not-translated', 'C09', 'lomond/session.py',
    "        except socket.error as error:\n"
    "            log.debug('error in _recv', exc_info=True)\n"
    "            self._socket_fail('recv fail; {}', error)\n",
    "        except socket.timeout as error:\n"
    "            log.debug('error in _recv', exc_info=True)\n"
    "            self._socket_fail('recv fail; {}', error)\n")
mut('C09-first-address-only', 'C09', 'lomond/session.py',
    "                sock.close()\n                sock = None\n                continue\n",
    "                sock.close()\n                sock = None\n                break\n")
# ---- C10
mut('C10-accept-prefix-compare', 'C10', 'lomond/websocket.py',
    "        if accept_header.lower() != challenge.lower():\n",
    "        if not challenge.lower().startswith(accept_header.lower()[:20]):\n")
mut('C10-status-2xx-accepted', 'C10', 'lomond/websocket.py',
    "        if response.status_code != 101:\n",
    "        if response.status_code not in (101, 100):\n")
# ---- C11 / C12
mut('C11-write-lock-removed', 'C11', 'lomond/session.py',
    "    def write(self, data, closing=False):\n"
    '        """Send raw data."""\n        with self._lock:\n',
    "    def write(self, data, closing=False):\n"
    '        """Send raw data."""\n        if True:\n')
mut('C12-flag-set-outside-lock', 'C12', 'lomond/session.py',
    "            if closing and state.session is self:\n",
    "            if False:\n")
mut('C11-compress-lock-removed', 'C11', 'lomond/websocket.py',
    "            with self.state.compress_lock:\n", "            if True:\n", 2)
# ---- C13
mut('C13-generator-exit-handler-removed', 'C13', 'lomond/session.py',
    "        except GeneratorExit:\n"
    "            # The consumer stopped iterating (break, exception or close),\n"
    "            # which may happen at events not generated by websocket.feed\n"
    "            self._close_socket()\n            raise\n", "")
# ---- C14
mut('C14-pong-payload-dropped-when-long', 'C14', 'lomond/session.py',
    "            self.websocket.send_pong(event.data)\n",
    "            self.websocket.send_pong(event.data[:124])\n")
mut('C14-pong-after-yield', 'C14', 'lomond/session.py',
    "                            self._on_event(event, auto_pong)\n"
    "                            yield event\n",
    "                            yield event\n"
    "                            self._on_event(event, auto_pong)\n")
# ---- C15
mut('C15-ceil-to-floor', 'C15', 'lomond/session.py',
    "                math.ceil(session_time / ping_rate) * ping_rate\n",
    "                math.floor(session_time / ping_rate) * ping_rate\n")
mut('C15-ms-conversion-dropped', 'C15', 'lomond/selectors.py',
    "        events = self._poll.poll(timeout * 1000.0)\n",
    "        events = self._poll.poll(timeout * 1024.0)\n")
mut('C15-last-pong-not-updated', 'C15', 'lomond/session.py',
    "        self._last_pong = self.session_time\n",
    "        self._last_pong = self._last_pong or self.session_time\n")
mut('C15-close-timeout-strict', 'C15', 'lomond/session.py',
    "            if session_time >= sent_close_time + close_timeout:\n",
    "            if session_time > sent_close_time + close_timeout + 5:\n")
# ---- C16
mut('C16-linear-growth', 'C16', 'lomond/persist.py',
    "min(random_wait, 2**retries)", "min(random_wait, 2*retries)")
mut('C16-no-reset-on-ready', 'C16', 'lomond/persist.py',
    "                retries = 0\n", "                retries = retries\n")
# ---- C17
mut('C17-reset-not-called', 'C17', 'lomond/websocket.py',
    "        self.reset()\n        self.state.session = session = session_class(self)\n",
    "        if self.state.sent_close_time is None:\n            self.reset()\n"
    "        self.state.session = session = session_class(self)\n")
# ---- C18
mut('C18-pending-shortcut-removed', 'C18', 'lomond/selectors.py',
    "        if hasattr(self._socket, 'pending') and self._socket.pending():\n"
    "            return True, self._socket.pending()\n", "")
# ---- C19
mut('C19-proxy-entries-swapped', 'C19', 'lomond/session.py',
    "            'https' if self.websocket.is_secure else 'http'\n",
    "            'http' if self.websocket.is_secure else 'https'\n")
mut('C19-connect-names-proxy-port', 'C19', 'lomond/session.py',
    "            self.websocket.host, self.websocket.port,\n"
    "            proxy_username",
    "            self.websocket.host, _port if self.websocket.port == 80 else "
    "self.websocket.port,\n            proxy_username")


def sh(cmd, **kw):
    return subprocess.run(cmd, shell=True, stdout=subprocess.PIPE,
                          stderr=subprocess.STDOUT, **kw)


def main():
    ap = argparse.ArgumentParser()
    ap.add_argument('--only', default='')
    args = ap.parse_args()
    results = {}
    os.makedirs(os.path.join(VERIF, 'mutants'), exist_ok=True)
    out_path = os.path.join(VERIF, 'mutants', 'RESULTS.json')
    if os.path.exists(out_path):
        results = json.load(open(out_path))
    for m in M:
        if args.only not in m['name']:
            continue
        shutil.rmtree(SCRATCH, ignore_errors=True)
        os.makedirs(SCRATCH)
        shutil.copytree('/repo/lomond', os.path.join(SCRATCH, 'lomond'))
        shutil.copytree('/repo/tests', os.path.join(SCRATCH, 'tests'))
        for f in ('setup.py', 'setup.cfg'):
            shutil.copy(os.path.join('/repo', f), SCRATCH)
        p = os.path.join(SCRATCH, m['path'])
        src = open(p).read()
        if src.count(m['old']) < 1:
            results[m['name']] = {'error': 'pattern not found'}
            print('%-44s PATTERN NOT FOUND' % m['name'])
            continue
        open(p, 'w').write(src.replace(m['old'], m['new']))
        r = sh('cd %s && /venv/bin/python -c "import lomond.websocket, '
               'lomond.persist"' % SCRATCH)
        if r.returncode:
            results[m['name']] = {'error': 'does not import'}
            print('%-44s DOES NOT IMPORT' % m['name'])
            continue
        r = sh('cd %s && unshare -n sh -c "ip link set lo up; timeout 900 '
               '/venv/bin/python -m pytest -q -p no:cacheprovider '
               '--timeout=900 tests 2>&1 | tail -1"' % SCRATCH)
        suite = r.stdout.decode().strip().split(' in ')[0]
        env = dict(os.environ, LOMOND_REPO=SCRATCH)
        r = subprocess.run([os.path.join(VERIF, 'check'), m['prop'], '--tier',
                            'quick', '--no-evidence'], env=env, cwd=VERIF,
                           stdout=subprocess.PIPE, stderr=subprocess.STDOUT)
        out = r.stdout.decode('utf-8', 'replace')
        keys = [ln.split('key=')[1].strip() for ln in out.splitlines()
                if 'key=' in ln][:3]
        results[m['name']] = {'property': m['prop'], 'suite': suite,
                              'suite_kills_it': suite != '8 failed, 162 passed',
                              'check_exit': r.returncode, 'keys': keys}
        print('%-44s suite=%-22s check=%s %s' % (
            m['name'], suite, {0: 'MISSED', 1: 'caught', 2: 'harness-error'}
            .get(r.returncode, r.returncode), keys[:1]))
        sys.stdout.flush()
        json.dump(results, open(out_path, 'w'), indent=1, sort_keys=True)
    shutil.rmtree(SCRATCH, ignore_errors=True)
    sh('rm -rf %s/replays/*' % VERIF)
    return 0


if __name__ == '__main__':
    sys.exit(main())
