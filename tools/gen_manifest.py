#!/usr/bin/env python3
"""Regenerate /verif/MANIFEST.json from the table below (kept in one place so
the manifest stays valid while checks are added)."""
import json
import os

HERE = os.path.dirname(os.path.dirname(os.path.abspath(__file__)))

# id -> (engine, category, technique, level text, level note, design ref)
CHECKS = {}


def add(pid, engine, category, technique, text, note, ref):
    CHECKS[pid] = (engine, category, technique, text, note, ref)


TRUST = ('Trusted base: the simulator in /verif/dst (fake socket/poll/TLS '
         'record model/clock), the reference codecs in dst/peer.py, CPython '
         '3.12 in /venv, zlib.  Real code: everything under /repo/lomond, '
         'unmodified, imported from the working tree.')

add('C01', 'netsim', 'exploration',
    'deterministic simulation: seeded message/fragmentation/segmentation '
    'search against an expected-by-construction event list',
    'Seeded search (fixed run counts per tier) over abstract message lists, '
    'fragmentations, control-frame placements, length forms, TCP cut sets and '
    'delays on a virtual clock; each run compares the events of the real '
    'connect() loop with the list the generator started from and re-checks '
    'payloads after the run for aliasing.  Evidence over the explored runs, '
    'not a proof.', TRUST, 'DESIGN.md section 6 C01')

add('C04', 'netsim', 'exploration',
    'deterministic simulation: one injected protocol violation per run at a '
    'seeded position + exhaustive sweep of all 65536 two-byte frame headers',
    'Each run plays a valid prefix, exactly one violating frame of a seeded '
    'class (18 classes), and marker-carrying trailing frames through the real '
    'receive path under seeded segmentation, also while the client is '
    'closing; the oracle knows the index of the violating frame by '
    'construction and checks events and the decoded client wire.  The header '
    'sweep is a complete enumeration of the 2-byte header space against an '
    'independent classifier; everything else is sampled.', TRUST,
    'DESIGN.md section 6 C04')

add('C07', 'netsim', 'exploration',
    'deterministic simulation: bounded enumeration of server-step x '
    'application-reaction x single-fault sequences, seeded long histories, '
    'event-order automaton + termination budget',
    'All sequences of <= 3 server steps over a 17-token alphabet x 8 '
    'application tables x 12 faults are enumerated in the thorough tier '
    '(stratified sample in quick and for lengths 4-5); random histories of up '
    'to 200 steps with multi-fault plans go beyond the bound.  The automaton '
    'also runs as a monitor inside every other check.  Liveness is bounded: '
    'a run that exhausts its poll/event budget is reported as a hang.', TRUST,
    'DESIGN.md section 6 C07')

ORDER = ['C01', 'C02', 'C03', 'C04', 'C05', 'C06', 'C07', 'C08', 'C09', 'C10',
         'C11', 'C12', 'C13', 'C14', 'C15', 'C16', 'C17', 'C18', 'C19']


def main():
    built = [p for p in ORDER
             if os.path.exists(os.path.join(HERE, 'dst', 'props', p + '.py'))
             and p in CHECKS]
    checks = []
    for pid in built:
        engine, cat, tech, text, note, ref = CHECKS[pid]
        checks.append({
            'property_id': pid,
            'quick_cmd': './check %s --tier quick' % pid,
            'thorough_cmd': './check %s --tier thorough' % pid,
            'evidence_file': 'evidence/%s.json' % pid,
            'replay_cmd_template': './check %s --replay {path}' % pid,
            'engine': engine,
            'level_claimed': {'category': cat, 'text': text,
                              'design_ref': ref},
            'level_note': note,
            'technique': tech,
        })
    na = [{'property_id': p,
           'reason': 'check not built yet (work in progress; planned in '
                     'DESIGN.md section 6)'}
          for p in ORDER if p not in built]
    man = {
        'version': 1,
        'setup_cmd': './setup.sh',
        'hooks': {
            'guard': 'LOMOND_VERIF',
            'enable': 'no source hooks were needed: every seam is a '
                      'module-level name of lomond that dst/world.py install() '
                      'rebinds in the checking process only '
                      '(LOMOND_VERIF=1 is exported by the checks for '
                      'documentation; lomond never reads it)',
            'baseline_off_cmd': 'cd /repo && /venv/bin/python -m pytest -q '
                                '-p no:cacheprovider --timeout=900 tests',
            'source_commits': [],
            'add_only': True,
        },
        'engines': [
            {'name': 'netsim', 'path': 'dst/netsim.py',
             'serves_properties': [p for p in built
                                   if CHECKS[p][0] == 'netsim'],
             'kind_free_text': 'single-threaded discrete-event simulation of '
                               'network, clock, TLS records, peer and '
                               'application around the real connect()/'
                               'persist() generators'},
            {'name': 'threadsim', 'path': 'dst/threadsim.py',
             'serves_properties': [p for p in built
                                   if CHECKS[p][0] == 'threadsim'],
             'kind_free_text': 'real threads released one at a time by a '
                               'seeded scheduler at sys.settrace line events '
                               'and at intercepted lock / sendall points'},
        ],
        'checks': checks,
        'not_applicable': na,
        'notes': 'All checks: exit 0 = held on everything explored, 1 = '
                 'VIOLATION line(s) with replay files under replays/, 2 = '
                 'harness error.  VERIF_SEED selects the seed, VERIF_TIER or '
                 '--tier the depth.  Known findings: known_findings.json.',
    }
    with open(os.path.join(HERE, 'MANIFEST.json'), 'w') as f:
        json.dump(man, f, indent=1)
        f.write('\n')
    print('MANIFEST.json: %d checks, %d not applicable' % (len(checks), len(na)))


if __name__ == '__main__':
    main()
