#!/usr/bin/env python3
"""Regenerate /verif/MANIFEST.json from the table below (kept in one place so
the manifest stays valid while checks are added)."""
import json
import os

HERE = os.path.dirname(os.path.dirname(os.path.abspath(__file__)))

# id -> (engine, category, technique, level text, level note, design ref)
CHECKS = {}


def add(pid, engine, category, technique, text, note, ref):
    CHECKS[pid] = (engine, category, technique, text, note, ref)


TRUST = ('Trusted base: the simulator in /verif/dst (fake socket/poll/TLS '
         'record model/clock), the reference codecs in dst/peer.py, CPython '
         '3.12 in /venv, zlib.  Real code: everything under /repo/lomond, '
         'unmodified, imported from the working tree.')

add('C01', 'netsim', 'exploration',
    'deterministic simulation: seeded message/fragmentation/segmentation '
    'search against an expected-by-construction event list',
    'Seeded search (fixed run counts per tier) over abstract message lists, '
    'fragmentations, control-frame placements, length forms, TCP cut sets and '
    'delays on a virtual clock; each run compares the events of the real '
    'connect() loop with the list the generator started from and re-checks '
    'payloads after the run for aliasing.  Evidence over the explored runs, '
    'not a proof.', TRUST, 'DESIGN.md section 6 C01')

add('C04', 'netsim', 'exploration',
    'deterministic simulation: one injected protocol violation per run at a '
    'seeded position + exhaustive sweep of all 65536 two-byte frame headers',
    'Each run plays a valid prefix, exactly one violating frame of a seeded '
    'class (18 classes), and marker-carrying trailing frames through the real '
    'receive path under seeded segmentation, also while the client is '
    'closing; the oracle knows the index of the violating frame by '
    'construction and checks events and the decoded client wire.  The header '
    'sweep is a complete enumeration of the 2-byte header space against an '
    'independent classifier; everything else is sampled.', TRUST,
    'DESIGN.md section 6 C04')

add('C07', 'netsim', 'exploration',
    'deterministic simulation: bounded enumeration of server-step x '
    'application-reaction x single-fault sequences, seeded long histories, '
    'event-order automaton + termination budget',
    'All sequences of <= 3 server steps over a 17-token alphabet x 8 '
    'application tables x 12 faults are enumerated in the thorough tier '
    '(stratified sample in quick and for lengths 4-5); random histories of up '
    'to 200 steps with multi-fault plans go beyond the bound.  The automaton '
    'also runs as a monitor inside every other check.  Liveness is bounded: '
    'a run that exhausts its poll/event budget is reported as a hang.', TRUST,
    'DESIGN.md section 6 C07')

add('C02', 'netsim', 'exploration',
    'deterministic simulation: metamorphic re-segmentation of one server '
    'byte stream (seeded cut sets + exhaustive cut sets for short streams)',
    'One byte stream (valid, violating, UTF-8, compressed, handshake '
    'variants) is replayed in a single read and under seeded cut sets '
    '(1-byte delivery, structural boundaries +-1); events and the raw bytes '
    'written by the client must be identical.  Streams with a frame part of '
    '<= 12 bytes get all 2^(n-1) cut sets, the reply gets every single cut '
    'and all pairs/triples near its terminator - finite enumerations of the '
    'simulator\'s own schedule space at a small bound; everything else is '
    'sampled.', TRUST, 'DESIGN.md section 6 C02')

add('C03', 'netsim', 'exploration',
    'deterministic simulation: seeded API call workloads in every '
    'connection state, every sendall decoded by an independent client-frame '
    'decoder',
    'Seeded batches of send_*/close calls (boundary lengths, all planes, '
    'adversarial masking keys, bad arguments) at Connecting, Connected, '
    'Ready, inside Closing, after close() and after Disconnected, with and '
    'without negotiated compression.  The encoding clauses are functions of '
    '(payload, key): they are boundary-swept and sampled, not proven; the '
    'simulator contributes the state dimension and the always-on decoder.',
    TRUST, 'DESIGN.md section 6 C03')

add('C05', 'netsim', 'exploration',
    'deterministic simulation: UTF-8 verdict sweep through the real receive '
    'path + fail-fast measured on the virtual clock',
    'Representative prefix per validator context x all 256 next bytes x 4 '
    'suffixes x 3 splittings, seeded strings with one defect each, sent as '
    'fragmented / segmented / compressed text or as a close reason; in the '
    'stall family the peer goes silent right after the first offending byte '
    'and the ProtocolError must be yielded at that virtual instant.  Two '
    'independent references (RFC 3629 range table, CPython) must agree.  '
    'This is a black-box sweep, not the exhaustive state-product proof.',
    TRUST, 'DESIGN.md section 6 C05 and section 10')

add('C06', 'netsim', 'exploration',
    'deterministic simulation: message histories against an independent '
    'RFC 7692 peer for all 256 parameter combinations',
    'All 8x8x2x2 negotiated parameter combinations are cycled with seeded '
    'header spellings; histories of up to 40 messages each way with '
    'back-references, fragmentation inside the deflate stream, control '
    'frames between fragments, peer variants (levels, stored/fixed blocks, '
    'context resets, BFINAL=1), compress=False sends, a negative family '
    'judged by a reference inflater, and no-offer / omitted / out-of-range '
    'controls.  Sampled histories, complete over the parameter grid.', TRUST,
    'DESIGN.md section 6 C06')

add('C08', 'netsim', 'exploration',
    'deterministic simulation: closing-handshake histories (client first, '
    'server first, crossing) with application sends at every event',
    'Seeded orders of application close() (any event incl. Connected, second '
    'close), server Close (valid codes, empty payload), messages before and '
    'between, sends inside and after Closing; oracle on the decoded wire and '
    'on events.  Single-threaded histories only (threads: C12).', TRUST,
    'DESIGN.md section 6 C08')

add('C09', 'netsim', 'fault_enumeration',
    'deterministic simulation: systematic single-fault sweep over every '
    'socket operation and every byte offset of 16 base scenarios, then '
    'seeded multi-fault runs',
    'For each base scenario the fault-free operation log is recorded and one '
    'run is made per (operation, fault kind): resolution, every refused-'
    'address subset, TLS handshake, every sendall / recv / selector wait, '
    'EOF and RST at every byte offset, shutdown/close raising.  Complete '
    'over that finite fault space in the thorough tier (byte offsets above '
    '420 are sampled in quick); base scenarios themselves are a chosen set.',
    TRUST, 'DESIGN.md section 6 C09')

add('C10', 'netsim', 'exploration',
    'deterministic simulation: request parsed by an independent HTTP parser, '
    'reply mutated per seed, reconnect chains for key freshness',
    'Seeded URL shapes and constructor options; the reply is computed from '
    'the key in the request with seeded order/case/whitespace/folding/size/'
    'segmentation and one of the wrong-accept, status, Upgrade or size '
    'variants; Ready iff the reference says must-Ready.  One open known '
    'finding (letter-case variants of the accept value).', TRUST,
    'DESIGN.md section 6 C10')

add('C14', 'netsim', 'exploration',
    'deterministic simulation: Ping-dense streams x auto_pong x application '
    'reactions x close x Pong write faults, oracle on the decoded wire',
    'Seeded streams with up to 20 Pings anywhere (between fragments, many '
    'per read, in the reply read, next to a Close), auto_pong on/off, an '
    'application writing at every event, close() at a seeded event, a '
    'transport fault on the k-th Pong write.', TRUST,
    'DESIGN.md section 6 C14')

add('C13', 'netsim', 'fault_enumeration',
    'deterministic simulation: abandonment at every event index x 4 '
    'mechanisms of 16 base scenarios, then seeded abandonment after faults',
    'Complete sweep of (event index, mechanism) for each base scenario; the '
    'consumer is a helper frame like the idiomatic for-loop so nothing in '
    'the harness pins the generator; afterwards garbage is collected with '
    'the WebSocket kept alive and every fake socket must have been close()d '
    'by the library (not merely dropped) and no poll object may survive.',
    TRUST, 'DESIGN.md section 6 C13')

add('C15', 'netsim', 'exploration',
    'deterministic simulation: interval rules on a virtual clock over '
    'seeded timer configurations and arrival histories',
    'Processing takes zero virtual time, so the rules are exact up to float '
    'rounding (2e-5 s) plus explicitly injected wake-up latency; seeded '
    '(poll, ping_rate, ping_timeout, close_timeout) incl. 0/None and '
    'inexact fractions x Pong / data / close-reply arrival histories.', TRUST,
    'DESIGN.md section 6 C15')

add('C16', 'netsim', 'exploration',
    'deterministic simulation: real persist() over seeded outcome '
    'sequences with owned random() and a virtual exit event',
    'Outcome sequences of 3-40 attempts, waits from a grid incl. (0,0) and '
    '(1,1), draws biased to 0 and 1-2^-53 so both bounds are tight, exit at '
    'a seeded back-off; structure, pass-through (teed at connect()), '
    'arguments and delay formula are checked.', TRUST,
    'DESIGN.md section 6 C16')

add('C17', 'netsim', 'exploration',
    'deterministic simulation: differential run of a reused WebSocket '
    'object against a fresh one on the same final script',
    '15 kinds of abnormal endings of the earlier connections x a final '
    'script sensitive to leftovers; events, relative virtual times, request '
    'and unmasked frames must equal those of a fresh object (run first), '
    'which must itself match the expected-by-construction events.', TRUST,
    'DESIGN.md section 6 C17')

add('C18', 'netsim', 'exploration',
    'deterministic simulation: arrival bursts on plain and TLS-model '
    'transports; event time must equal byte availability time',
    'Bursts up to 1 MiB / 5000 frames, TLS records (one-record and '
    'read-ahead pending() models), short reads, bursts ending in payload-'
    'less frames; zero processing time makes any stall visible as a '
    'difference between availability time and yield time.  The TLS layer is '
    'a model; the property\'s real-loopback clause is not covered.', TRUST,
    'DESIGN.md section 6 C18 and section 10')

add('C19', 'netsim', 'exploration',
    'deterministic simulation: proxy replies x segmentations x faults at '
    'each proxy socket call x URL and mapping shapes, ordered byte log',
    'Seeded proxies mappings (incl. environment), proxy URL shapes, ws/wss '
    'targets, replies (200 variants, other statuses, other 2xx, garbage, '
    'unterminated, stalled past 30 s, oversize, empty) and one fault per '
    'run at connect / CONNECT write / each recv / TLS wrap; the oracle '
    'reads the ordered log of the proxy socket.', TRUST,
    'DESIGN.md section 6 C19')

add('C11', 'threadsim', 'exploration',
    'deterministic simulation of real threads under a seeded scheduler: '
    'bounded pre-emption sweep + race-directed site sweep + random-walk / '
    'PCT schedules, wire decoded by an independent peer',
    'Real threads are released one at a time; yield points at every traced '
    'source line of lomond/*.py, at lock acquire/release, in the middle of '
    'the split socket write and in poll.  Every schedule with one '
    'pre-emption is enumerated for each base scenario (complete at bound 1), '
    'pairs are sampled, seeded schedulers go beyond.  A race-directed sweep '
    'runs sets of up to three pre-emption sites chosen among the points '
    'where two threads touch the same field of the connection state, the '
    'session or the compression object (found by recording runs).  '
    'Pre-emption is at '
    'source-line granularity: a race inside one C call is not modelled.',
    TRUST + '  SimLock replaces threading.Lock at lomond.session.threading / '
    'lomond.websocket.threading.', 'DESIGN.md section 6 C11, section 3.3')

add('C12', 'threadsim', 'exploration',
    'deterministic simulation of real threads under a seeded scheduler: '
    'bounded pre-emption sweep of close() against sends / closes / the event '
    'loop, race-directed site sweep (<= 3 sites), random-walk / PCT '
    'schedules beyond',
    'As C11, with base scenarios that race close() against send_text / '
    'send_binary / send_ping / close() and against the event-loop thread '
    'echoing a server Close, answering a Ping or sending an automatic Ping; '
    'oracle: <= 1 Close, no data frame after it, loser gets WebSocketError.  '
    'Race-directed sweep as in C11, complete over triples of sites for two '
    'bases at the quick tier; single-threaded families with a second writer '
    'of the flags (held generator, failed Close write, violation after '
    'close()).',
    TRUST + '  SimLock replaces threading.Lock at lomond.session.threading / '
    'lomond.websocket.threading.', 'DESIGN.md section 6 C12, section 3.3')

ORDER = ['C01', 'C02', 'C03', 'C04', 'C05', 'C06', 'C07', 'C08', 'C09', 'C10',
         'C11', 'C12', 'C13', 'C14', 'C15', 'C16', 'C17', 'C18', 'C19']


def main():
    built = [p for p in ORDER
             if os.path.exists(os.path.join(HERE, 'dst', 'props', p + '.py'))
             and p in CHECKS]
    checks = []
    for pid in built:
        engine, cat, tech, text, note, ref = CHECKS[pid]
        checks.append({
            'property_id': pid,
            'quick_cmd': './check %s --tier quick' % pid,
            'thorough_cmd': './check %s --tier thorough' % pid,
            'evidence_file': 'evidence/%s.json' % pid,
            'replay_cmd_template': './check %s --replay {path}' % pid,
            'engine': engine,
            'level_claimed': {'category': cat, 'text': text,
                              'design_ref': ref},
            'level_note': note,
            'technique': tech,
        })
    na = [{'property_id': p,
           'reason': 'check not built yet (work in progress; planned in '
                     'DESIGN.md section 6)'}
          for p in ORDER if p not in built]
    man = {
        'version': 1,
        'setup_cmd': './setup.sh',
        'hooks': {
            'guard': 'LOMOND_VERIF',
            'enable': 'no source hooks were needed: every seam is a '
                      'module-level name of lomond that dst/world.py install() '
                      'rebinds in the checking process only '
                      '(LOMOND_VERIF=1 is exported by the checks for '
                      'documentation; lomond never reads it)',
            'baseline_off_cmd': 'cd /repo && /venv/bin/python -m pytest -q '
                                '-p no:cacheprovider --timeout=900 tests',
            'source_commits': [],
            'add_only': True,
        },
        'engines': [
            {'name': 'netsim', 'path': 'dst/netsim.py',
             'serves_properties': [p for p in built
                                   if CHECKS[p][0] == 'netsim'],
             'kind_free_text': 'single-threaded discrete-event simulation of '
                               'network, clock, TLS records, peer and '
                               'application around the real connect()/'
                               'persist() generators'},
            {'name': 'threadsim', 'path': 'dst/threadsim.py',
             # C11 / C12 are ThreadSim only; these properties have ThreadSim
             # families next to their NetSim ones
             'serves_properties': [p for p in built
                                   if CHECKS[p][0] == 'threadsim' or p in (
                                       'C03', 'C04', 'C06', 'C09', 'C13',
                                       'C14', 'C17', 'C18', 'C19')],
             'kind_free_text': 'real threads released one at a time by a '
                               'seeded scheduler at sys.settrace line events '
                               'and at intercepted lock / sendall points; '
                               'timed lock waits, stalled writes and a thread '
                               'taken off the CPU run on the simulated clock'},
        ],
        'checks': checks,
        'not_applicable': na,
        'notes': 'The level texts name the core of each check; families added '
                 'during the sensitivity rounds (two objects at once, '
                 'reconnects, proxies, stalled writes, ThreadSim families of '
                 'NetSim properties ...) are listed in each evidence file '
                 '(coverage.rule, coverage.families) and in DESIGN.md section '
                 '15.  All checks: exit 0 = held on everything explored, 1 = '
                 'VIOLATION line(s) with replay files under replays/, 2 = '
                 'harness error.  VERIF_SEED selects the seed, VERIF_TIER or '
                 '--tier the depth.  Known findings: known_findings.json.',
    }
    with open(os.path.join(HERE, 'MANIFEST.json'), 'w') as f:
        json.dump(man, f, indent=1)
        f.write('\n')
    print('MANIFEST.json: %d checks, %d not applicable' % (len(checks), len(na)))


if __name__ == '__main__':
    main()
