#!/usr/bin/env python3
"""Re-validate every seeded change under /verif/seeded against the CURRENT
/repo HEAD and record which checks catch it.

For each seeded/<name>/: a scratch worktree of HEAD (outside /repo and
/verif, removed afterwards) gets patch.diff applied; the unit suite must
still pass (only the 8 network-dependent baseline failures), demo.py must
fail with the change and pass without it; then the given checks (default: all)
run at the quick tier with LOMOND_REPO pointing at the changed tree.

usage: seeded_matrix.py [--checks C01,C02,...|own] [--only name-substring]
Writes seeded/MATRIX.json and updates detected_by in each meta.json.
"""
import argparse
import json
import os
import subprocess
import sys

VERIF = os.path.dirname(os.path.dirname(os.path.abspath(__file__)))
WT = '/tmp/wt-matrix'
ALL = ['C%02d' % i for i in range(1, 20)]


def sh(cmd, **kw):
    return subprocess.run(cmd, shell=True, stdout=subprocess.PIPE,
                          stderr=subprocess.STDOUT, **kw)


def main():
    ap = argparse.ArgumentParser()
    ap.add_argument('--checks', default='all')
    ap.add_argument('--only', default='')
    args = ap.parse_args()
    sh('git -C /repo worktree remove --force %s' % WT)
    r = sh('git -C /repo worktree add -q --detach %s HEAD' % WT)
    if r.returncode:
        print(r.stdout.decode())
        return 2
    matrix = {}
    path = os.path.join(VERIF, 'seeded', 'MATRIX.json')
    if os.path.exists(path):
        matrix = json.load(open(path))
    head = sh('git -C /repo log --format=%h -1').stdout.decode().strip()
    try:
        for name in sorted(os.listdir(os.path.join(VERIF, 'seeded'))):
            d = os.path.join(VERIF, 'seeded', name)
            if not os.path.isdir(d) or args.only not in name:
                continue
            meta = json.load(open(os.path.join(d, 'meta.json')))
            if meta.get('obsolete_after'):
                # the construct the change relied on was removed by a fix
                matrix[name] = {'repo_head': head, 'caught_by': ['(obsolete '
                                'after fix %s)' % meta['obsolete_after']]}
                print('%-45s obsolete after %s' % (name, meta['obsolete_after']))
                continue
            row = {'repo_head': head}
            sh('git -C %s checkout -q -- lomond' % WT)
            # the demos were written to live in <tree>/out/ and many locate
            # the tree relative to their own path
            sh('mkdir -p %s/out && cp %s/demo.py %s/out/demo.py' % (WT, d, WT))
            demo = ('cd %s && PYTHONPATH=%s timeout 120 /venv/bin/python '
                    'out/demo.py' % (WT, WT))
            row['demo_original_exit'] = sh(demo).returncode
            r = sh('git -C %s apply %s/patch.diff' % (WT, d))
            if r.returncode:
                row['error'] = 'patch does not apply to HEAD'
                matrix[name] = row
                print(name, 'STALE PATCH')
                continue
            r = sh('cd %s && unshare -n sh -c "ip link set lo up; timeout 900 '
                   '/venv/bin/python -m pytest -q -p no:cacheprovider '
                   '--timeout=900 tests 2>&1 | tail -1"' % WT)
            row['suite'] = r.stdout.decode().strip().split(' in ')[0]
            row['demo_changed_exit'] = sh(demo).returncode
            checks = ALL if args.checks == 'all' else [] if \
                args.checks == 'none' else (
                [meta['property']] if args.checks == 'own'
                else args.checks.split(','))
            det = dict(matrix.get(name, {}).get('checks', {}))
            for c in checks:
                env = dict(os.environ, LOMOND_REPO=WT)
                r = subprocess.run(
                    ['timeout', '1500', os.path.join(VERIF, 'check'), c,
                     '--tier', 'quick', '--no-evidence'], env=env,
                    stdout=subprocess.PIPE, stderr=subprocess.STDOUT,
                    cwd=VERIF)
                out = r.stdout.decode('utf-8', 'replace')
                keys = [ln.split('key=')[1].strip() for ln in out.splitlines()
                        if 'key=' in ln][:3]
                det[c] = {'exit': r.returncode, 'keys': keys}
            row['checks'] = det
            caught = sorted(c for c, v in det.items() if v['exit'] == 1)
            harness = sorted(c for c, v in det.items() if v['exit'] == 2)
            row['caught_by'] = caught
            row['harness_error_in'] = harness
            matrix[name] = row
            meta['detected_by'] = caught
            if harness:
                meta['reported_as_harness_error_by'] = harness
            meta['validated_against_repo_head'] = head
            json.dump(meta, open(os.path.join(d, 'meta.json'), 'w'), indent=1)
            print('%-45s suite=%s demo=%s/%s caught_by=%s%s' % (
                name, row['suite'], row['demo_original_exit'],
                row['demo_changed_exit'], ','.join(caught) or '-',
                (' harness_error=' + ','.join(harness)) if harness else ''))
            sys.stdout.flush()
            json.dump(matrix, open(path, 'w'), indent=1, sort_keys=True)
    finally:
        sh('git -C %s checkout -q -- lomond; rm -rf %s/out' % (WT, WT))
        sh('git -C /repo worktree remove --force %s' % WT)
        sh('rm -rf %s/replays/*' % VERIF)
    return 0


if __name__ == '__main__':
    sys.exit(main())
