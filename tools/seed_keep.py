#!/usr/bin/env python3
"""usage: seed_keep.py <worktree> <X> <property> <name> <detected_by comma list or -> <needs text>
Copies a confirmed seeded change into /verif/seeded/<name>/ with meta.json."""
import json, os, shutil, sys
wt, x, prop, name, det, needs = sys.argv[1:7]
d = os.path.join('/verif/seeded', name)
os.makedirs(d, exist_ok=True)
shutil.copy(os.path.join(wt, 'out', x + '.diff'), os.path.join(d, 'patch.diff'))
shutil.copy(os.path.join(wt, 'out', x + '_demo.py'), os.path.join(d, 'demo.py'))
if os.path.exists(os.path.join(wt, 'out', x + '.md')):
    shutil.copy(os.path.join(wt, 'out', x + '.md'), os.path.join(d, 'notes.md'))
meta = {
    'property': prop,
    'origin': 'independent sub-agent given only the property text and a scratch worktree',
    'needs_to_manifest': needs,
    'confirmed': {
        'suite_with_change': 'cd <worktree> && /venv/bin/python -m pytest -q -p no:cacheprovider --timeout=900 tests -> only the 8 network-dependent baseline failures',
        'demo': 'demo.py exits 0 on the original tree and non-zero with patch.diff applied',
    },
    'checks_run': 'tools/seed_confirm.sh <worktree> %s <checks> (quick tier, LOMOND_REPO=<worktree with patch applied>)' % x,
    'detected_by': [c for c in det.split(',') if c and c != '-'],
}
json.dump(meta, open(os.path.join(d, 'meta.json'), 'w'), indent=1)
print('kept', d)
