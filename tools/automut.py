#!/usr/bin/env python3
"""Automatic mutation survey: which small edits of /repo/lomond that the
unit suite does NOT notice are noticed by the checks?

Mutants are generated from the AST of the CURRENT /repo working tree
(comparison boundaries and negations, and/or, +/-, integer constants +-1,
True/False, removed `not`, negated conditions, deleted state updates / calls
/ yields / raises).  For each mutant a scratch copy of the tree (outside
/repo and /verif, removed afterwards) is edited and

 1. compiled, and the unit suite is run (the 8 network-dependent baseline
    failures deselected).  Mutants the suite kills are only counted.
 2. for the survivors the checks run at the quick tier (reduced scale, no
    minimisation: --detect-only) with LOMOND_REPO pointing at the copy, most
    relevant property first, until one reports a violation.

usage: automut.py list [--files a.py,b.py]
       automut.py run  [--files ...] [--jobs N] [--workers W] [--limit N]
                       [--resume] [--scale S]
       automut.py rerun-uncaught [--scale 1]      (second pass, full quick)
       automut.py summary
Results: /verif/mutants/AUTO.jsonl (one line per mutant) and AUTO_SUMMARY.json.
"""
import argparse
import ast
import concurrent.futures
import json
import os
import re
import shutil
import subprocess
import sys

VERIF = os.path.dirname(os.path.dirname(os.path.abspath(__file__)))
REPO = os.environ.get('LOMOND_REPO', '/repo')
SCRATCH = '/tmp/automut'
OUT = os.path.join(VERIF, 'mutants', 'AUTO.jsonl')
ALL = ['C%02d' % i for i in range(1, 20)]

FILES = ['compression.py', 'extension.py', 'frame.py', 'frame_parser.py',
         'mask.py', 'message.py', 'opcode.py', 'parser.py', 'persist.py',
         'proxy.py', 'response.py', 'selectors.py', 'session.py', 'status.py',
         'stream.py', 'utf8validator.py', 'websocket.py', 'events.py',
         'errors.py', 'constants.py']

ORDER = {
    'parser.py': ['C02', 'C01', 'C10', 'C19', 'C04', 'C05', 'C18'],
    'frame_parser.py': ['C01', 'C04', 'C02', 'C05', 'C06', 'C18'],
    'frame.py': ['C03', 'C04', 'C01', 'C08', 'C14', 'C05'],
    'stream.py': ['C01', 'C04', 'C06', 'C10', 'C02', 'C14', 'C18'],
    'message.py': ['C01', 'C05', 'C08', 'C04', 'C06'],
    'utf8validator.py': ['C05', 'C01', 'C04'],
    'compression.py': ['C06', 'C03', 'C17', 'C01', 'C11'],
    'extension.py': ['C06', 'C03', 'C17'],
    'mask.py': ['C03'],
    'opcode.py': ['C04', 'C08', 'C03', 'C01'],
    'status.py': ['C04', 'C08', 'C03'],
    'response.py': ['C10', 'C19', 'C06'],
    'proxy.py': ['C19', 'C09', 'C13'],
    'persist.py': ['C16'],
    'selectors.py': ['C18', 'C09', 'C15', 'C07', 'C13'],
    'session.py': ['C07', 'C09', 'C15', 'C18', 'C13', 'C08', 'C19', 'C16',
                   'C14', 'C17', 'C03', 'C12', 'C11'],
    'websocket.py': ['C10', 'C08', 'C03', 'C14', 'C17', 'C07', 'C06', 'C04',
                     'C09', 'C13', 'C01', 'C15', 'C16', 'C12', 'C11'],
    'events.py': ['C01', 'C07', 'C10', 'C08'],
    'errors.py': ['C09', 'C07', 'C10'],
    'constants.py': ['C10', 'C03'],
}

KNOWN_FAIL = [
    'tests/test_integration.py::TestIntegration::test_broken',
    'tests/test_live.py::test_echo', 'tests/test_live.py::test_echo_no_sni',
    'tests/test_live.py::test_not_ws', 'tests/test_live.py::test_not_ws_select',
    'tests/test_proxy.py::test_bad_proxy', 'tests/test_proxy.py::test_proxy',
    'tests/test_session.py::test_that_on_ping_responds_with_pong',
]

CMP = {'<': ['<='], '<=': ['<'], '>': ['>='], '>=': ['>'], '==': ['!='],
       '!=': ['=='], 'is': ['is not'], 'is not': ['is'], 'in': ['not in'],
       'not in': ['in']}
CMP_RE = re.compile(rb'(<=|>=|==|!=|<|>|\bis\s+not\b|\bis\b|\bnot\s+in\b|\bin\b)')


class Gen(ast.NodeVisitor):
    def __init__(self, src):
        self.src = src
        self.lines = src.split(b'\n')
        self.off = [0]
        for ln in self.lines:
            self.off.append(self.off[-1] + len(ln) + 1)
        self.out = []
        self.skip_depth = 0
        self.func = []

    def p(self, lineno, col):
        return self.off[lineno - 1] + col

    def span(self, node):
        return (self.p(node.lineno, node.col_offset),
                self.p(node.end_lineno, node.end_col_offset))

    def add(self, a, b, new, op, node):
        old = self.src[a:b]
        if old == new:
            return
        self.out.append({'a': a, 'b': b, 'new': new.decode(), 'op': op,
                         'line': node.lineno,
                         'old': old.decode('utf-8', 'replace')[:80],
                         'func': '.'.join(self.func)})

    # -- what not to touch
    def _is_log_call(self, node):
        return (isinstance(node, ast.Call) and
                isinstance(node.func, ast.Attribute) and
                isinstance(node.func.value, ast.Name) and
                node.func.value.id in ('log', 'logging', 'warnings'))

    def visit_FunctionDef(self, node):
        if node.name in ('__repr__', '__str__', '_summarize', '_summarize_bytes',
                         '_summarize_text', '__unicode__'):
            return
        self.func.append(node.name)
        for d in node.body:
            self.visit(d)
        self.func.pop()

    def visit_ClassDef(self, node):
        self.func.append(node.name)
        for d in node.body:
            self.visit(d)
        self.func.pop()

    def visit_Expr(self, node):
        v = node.value
        if isinstance(v, ast.Constant) and isinstance(v.value, (str, bytes)):
            return          # docstring
        if self._is_log_call(v):
            return
        if isinstance(v, (ast.Call, ast.Yield, ast.YieldFrom)):
            a, b = self.span(node)
            self.add(a, b, b'pass', 'delete_stmt', node)
        self.generic_visit(node)

    def visit_Assign(self, node):
        if any(isinstance(t, (ast.Attribute, ast.Subscript))
               for t in node.targets) and self.func:
            a, b = self.span(node)
            self.add(a, b, b'pass', 'delete_assign', node)
        self.generic_visit(node)

    def visit_AugAssign(self, node):
        a, b = self.span(node)
        self.add(a, b, b'pass', 'delete_assign', node)
        ta, tb = self.span(node.target)
        va, vb = self.span(node.value)
        gap = self.src[tb:va]
        if b'+=' in gap:
            self.add(tb, va, gap.replace(b'+=', b'-='), 'aug_swap', node)
        elif b'-=' in gap:
            self.add(tb, va, gap.replace(b'-=', b'+='), 'aug_swap', node)
        self.generic_visit(node)

    def visit_Delete(self, node):
        a, b = self.span(node)
        self.add(a, b, b'pass', 'delete_stmt', node)

    def visit_Raise(self, node):
        a, b = self.span(node)
        if node.exc is not None:
            self.add(a, b, b'pass', 'delete_raise', node)
        # do not mutate the message inside

    def visit_Return(self, node):
        if node.value is not None and not (
                isinstance(node.value, ast.Constant) and
                node.value.value is None):
            v = node.value
            if isinstance(v, ast.Constant) and isinstance(v.value, bool):
                pass        # handled as a constant
            else:
                a, b = self.span(node)
                self.add(a, b, b'return None', 'return_none', node)
        self.generic_visit(node)

    def visit_Break(self, node):
        a, b = self.span(node)
        self.add(a, b, b'continue', 'break_continue', node)

    def visit_Continue(self, node):
        a, b = self.span(node)
        self.add(a, b, b'break', 'break_continue', node)

    def _negate(self, test, node):
        if isinstance(test, ast.UnaryOp) and isinstance(test.op, ast.Not):
            return
        if isinstance(test, ast.Compare) and len(test.ops) == 1 and \
                isinstance(test.ops[0], (ast.Eq, ast.NotEq, ast.Is, ast.IsNot,
                                         ast.In, ast.NotIn)):
            return
        a, b = self.span(test)
        self.add(a, b, b'not (' + self.src[a:b] + b')', 'negate_cond', node)

    def visit_If(self, node):
        self._negate(node.test, node)
        self.generic_visit(node)

    def visit_While(self, node):
        if not (isinstance(node.test, ast.Constant)):
            self._negate(node.test, node)
        self.generic_visit(node)

    def visit_IfExp(self, node):
        self._negate(node.test, node)
        self.generic_visit(node)

    def visit_Assert(self, node):
        return

    def visit_Compare(self, node):
        if len(node.ops) == 1:
            _, la = self.span(node.left)
            ra, _ = self.span(node.comparators[0])
            gap = self.src[la:ra]
            m = CMP_RE.search(gap)
            if m:
                tok = b' '.join(m.group(1).split()).decode()
                for new in CMP.get(tok, []):
                    self.add(la + m.start(1), la + m.end(1), new.encode(),
                             'cmp:%s->%s' % (tok, new), node)
        self.generic_visit(node)

    def visit_BoolOp(self, node):
        for x, y in zip(node.values, node.values[1:]):
            _, xa = self.span(x)
            ya, _ = self.span(y)
            gap = self.src[xa:ya]
            if isinstance(node.op, ast.And):
                m = re.search(rb'\band\b', gap)
                new = b'or'
            else:
                m = re.search(rb'\bor\b', gap)
                new = b'and'
            if m:
                self.add(xa + m.start(), xa + m.end(), new, 'and_or', node)
        self.generic_visit(node)

    def visit_UnaryOp(self, node):
        if isinstance(node.op, ast.Not):
            a, b = self.span(node)
            oa, ob = self.span(node.operand)
            self.add(a, b, b'(' + self.src[oa:ob] + b')', 'drop_not', node)
        self.generic_visit(node)

    def visit_BinOp(self, node):
        if isinstance(node.op, (ast.Add, ast.Sub)) and not (
                isinstance(node.left, ast.Constant) and
                isinstance(node.left.value, (str, bytes))):
            _, la = self.span(node.left)
            ra, _ = self.span(node.right)
            gap = self.src[la:ra]
            if isinstance(node.op, ast.Add) and gap.count(b'+') == 1:
                self.add(la, ra, gap.replace(b'+', b'-'), 'add_sub', node)
            elif isinstance(node.op, ast.Sub) and gap.count(b'-') == 1:
                self.add(la, ra, gap.replace(b'-', b'+'), 'add_sub', node)
        if isinstance(node.op, ast.Mod) and isinstance(
                node.left, ast.Constant) and isinstance(node.left.value,
                                                        (str, bytes)):
            return      # message formatting
        self.generic_visit(node)

    def visit_Call(self, node):
        if self._is_log_call(node):
            return
        # str.format() of messages: leave the text alone, visit the args
        self.generic_visit(node)

    def visit_List(self, node):
        if len(node.elts) > 12:
            return          # tables
        self.generic_visit(node)

    visit_Tuple = visit_List

    def visit_Constant(self, node):
        v = node.value
        a, b = self.span(node)
        if v is True:
            self.add(a, b, b'False', 'bool', node)
        elif v is False:
            self.add(a, b, b'True', 'bool', node)
        elif isinstance(v, int) and not isinstance(v, bool):
            if abs(v) > 1 << 40:
                return
            self.add(a, b, str(v + 1).encode(), 'int+1', node)
            if v != 0:
                self.add(a, b, str(v - 1).encode(), 'int-1', node)
        elif isinstance(v, float):
            self.add(a, b, repr(v * 2).encode(), 'float*2', node)


def mutants_of(fname):
    path = os.path.join(REPO, 'lomond', fname)
    src = open(path, 'rb').read()
    g = Gen(src)
    g.visit(ast.parse(src))
    out = []
    seen = set()
    for m in g.out:
        key = (m['a'], m['b'], m['new'])
        if key in seen:
            continue
        seen.add(key)
        m['file'] = fname
        m['id'] = '%s:%d:%s:%d' % (fname, m['line'], m['op'], len(out))
        out.append(m)
    return out


def all_mutants(files):
    out = []
    for f in files:
        out.extend(mutants_of(f))
    return out


def sh(cmd, timeout=None, env=None):
    try:
        r = subprocess.run(cmd, shell=True, stdout=subprocess.PIPE,
                           stderr=subprocess.STDOUT, timeout=timeout, env=env)
        return r.returncode, r.stdout.decode('utf-8', 'replace')
    except subprocess.TimeoutExpired as e:
        return 124, (e.stdout or b'').decode('utf-8', 'replace')


def prepare_slot(k):
    d = os.path.join(SCRATCH, 's%d' % k)
    shutil.rmtree(d, ignore_errors=True)
    os.makedirs(d)
    for sub in ('lomond', 'tests'):
        shutil.copytree(os.path.join(REPO, sub), os.path.join(d, sub),
                        ignore=shutil.ignore_patterns('__pycache__', '*.pyc'))
    for f in ('setup.cfg', 'setup.py', 'README.md'):
        if os.path.exists(os.path.join(REPO, f)):
            shutil.copy(os.path.join(REPO, f), d)
    return d


def run_one(args):
    m, slot, workers, scale, checks_override, skip_suite = args
    d = os.path.join(SCRATCH, 's%d' % slot)
    if not os.path.isdir(d):
        prepare_slot(slot)
    path = os.path.join(d, 'lomond', m['file'])
    orig = open(os.path.join(REPO, 'lomond', m['file']), 'rb').read()
    mutated = orig[:m['a']] + m['new'].encode() + orig[m['b']:]
    res = dict(m)
    res.pop('a'), res.pop('b')
    try:
        open(path, 'wb').write(mutated)
        try:
            compile(mutated, path, 'exec')
        except SyntaxError as e:
            res['status'] = 'syntax_error'
            res['note'] = str(e)[:100]
            return res
        sh('find %s -name __pycache__ -prune -exec rm -rf {} +' % d)
        if not skip_suite:
            desel = ' '.join('--deselect %s' % t for t in KNOWN_FAIL)
            rc, out = sh("cd %s && unshare -n sh -c 'ip link set lo up; "
                         "timeout 600 /venv/bin/python -m pytest -q -x "
                         "-p no:cacheprovider --timeout=60 %s tests 2>&1 | "
                         "tail -3'" % (d, desel), timeout=700)
            last = out.strip().splitlines()[-1] if out.strip() else ''
            res['suite'] = last[:80]
            if ' passed' not in last or 'failed' in last or 'error' in last:
                res['status'] = 'killed_by_suite'
                return res
        order = list(checks_override or ORDER.get(m['file'], []))
        order += [c for c in ALL if c not in order and c not in ('C11', 'C12')]
        order += [c for c in ('C12', 'C11') if c not in order]
        env = dict(os.environ, LOMOND_REPO=d)
        res['checks_run'] = []
        res['status'] = 'uncaught'
        for i, c in enumerate(order):
            sc = scale if i < len(ORDER.get(m['file'], [])) else scale * 0.5
            rc, out = sh('cd %s && timeout 900 ./check %s --tier quick '
                         '--no-evidence --detect-only --workers %d --scale %s'
                         % (VERIF, c, workers, sc), timeout=1000, env=env)
            res['checks_run'].append(c)
            if rc == 1:
                res['status'] = 'caught'
                res['caught_by'] = c
                mm = re.search(r'DETECTED property=\S+ key=(\S+)', out)
                res['key'] = mm.group(1) if mm else None
                break
            if rc == 124 or rc == 137:
                res['status'] = 'caught'
                res['caught_by'] = c
                res['key'] = 'wall-clock timeout of the check (runaway)'
                break
            if rc != 0:
                res.setdefault('harness_errors', []).append(
                    (c, out.strip().splitlines()[-3:]))
        return res
    finally:
        open(path, 'wb').write(orig)


def dead_code_verdict(r, _cache={}):
    """Mutants in code that no run on this platform / Python can reach."""
    f = r['file']
    if f not in _cache:
        src = open(os.path.join(REPO, 'lomond', f)).read()
        tree = ast.parse(src)
        main_lines = set()
        py2_lines = set()
        for node in ast.walk(tree):
            if isinstance(node, ast.If):
                t = ast.unparse(node.test) if hasattr(ast, 'unparse') else ''
                if '__name__' in t and '__main__' in t:
                    main_lines.update(range(node.lineno, node.end_lineno + 1))
                if t in ('six.PY3', 'PY3') and node.orelse:
                    py2_lines.update(range(node.orelse[0].lineno,
                                           node.orelse[-1].end_lineno + 1))
                if t in ('six.PY2', 'PY2'):
                    py2_lines.update(range(node.body[0].lineno,
                                           node.body[-1].end_lineno + 1))
        _cache[f] = (main_lines, py2_lines)
    main_lines, py2_lines = _cache[f]
    if r['line'] in main_lines:
        return 'dead: demo code under __main__'
    if r['line'] in py2_lines:
        return 'dead: Python 2 branch'
    fn = r.get('func') or ''
    if fn.startswith('TestParser'):
        return 'dead: demo parser'
    if f == 'selectors.py' and (fn.startswith('SelectSelector') or
                                fn.startswith('KQueueSelector')):
        return 'dead: selector of another platform'
    return None


def load_done():
    done = {}
    if os.path.exists(OUT):
        for ln in open(OUT):
            try:
                r = json.loads(ln)
            except ValueError:
                continue
            done[r['id']] = r
    return done


def summary():
    done = load_done()
    by = {}
    for r in done.values():
        by.setdefault(r['status'], []).append(r)
    s = {'total': len(done),
         'by_status': {k: len(v) for k, v in by.items()},
         'caught_by': {}, 'uncaught': []}
    for r in by.get('caught', []):
        s['caught_by'][r['caught_by']] = s['caught_by'].get(r['caught_by'], 0) + 1
    for r in sorted(by.get('uncaught', []), key=lambda r: r['id']):
        s['uncaught'].append({'id': r['id'], 'func': r['func'],
                              'old': r['old'], 'new': r['new'],
                              'verdict': r.get('verdict')})
    json.dump(s, open(os.path.join(VERIF, 'mutants', 'AUTO_SUMMARY.json'), 'w'),
              indent=1, sort_keys=True)
    print(json.dumps({k: v for k, v in s.items() if k != 'uncaught'}, indent=1))
    print('uncaught: %d' % len(s['uncaught']))


def main():
    ap = argparse.ArgumentParser()
    ap.add_argument('cmd', choices=['list', 'run', 'rerun-uncaught', 'summary', 'triage'])
    ap.add_argument('--files', default='')
    ap.add_argument('--jobs', type=int, default=5)
    ap.add_argument('--workers', type=int, default=3)
    ap.add_argument('--limit', type=int, default=0)
    ap.add_argument('--scale', type=float, default=0.3)
    ap.add_argument('--resume', action='store_true')
    ap.add_argument('--stride', default='')     # "k/n": every n-th mutant
    args = ap.parse_args()
    files = [f for f in args.files.split(',') if f] or FILES
    if args.cmd == 'summary':
        return summary()
    muts = all_mutants(files)
    if args.cmd == 'list':
        import collections
        c = collections.Counter(m['file'] for m in muts)
        for f in files:
            print('%-20s %d' % (f, c[f]))
        print('total', len(muts))
        return
    os.makedirs(os.path.dirname(OUT), exist_ok=True)
    done = load_done()
    skip_suite = False
    if args.cmd == 'triage':
        n = 0
        for r in done.values():
            if r['status'] == 'uncaught' and not r.get('verdict'):
                v = dead_code_verdict(r)
                if v:
                    r['verdict'] = v
                    n += 1
        with open(OUT + '.tmp', 'w') as f:
            for r in done.values():
                f.write(json.dumps(r, sort_keys=True) + '\n')
        os.replace(OUT + '.tmp', OUT)
        print('%d mutants marked as dead code' % n)
        return summary()
    if args.cmd == 'rerun-uncaught':
        ids = {i for i, r in done.items() if r['status'] == 'uncaught'
               and not r.get('verdict')}
        muts = [m for m in muts if m['id'] in ids]
        skip_suite = True
        # rewrite the file without them
        with open(OUT + '.tmp', 'w') as f:
            for r in done.values():
                if r['id'] not in ids:
                    f.write(json.dumps(r, sort_keys=True) + '\n')
        os.replace(OUT + '.tmp', OUT)
    elif args.resume:
        muts = [m for m in muts if m['id'] not in done]
    if args.stride:
        k, n = map(int, args.stride.split('/'))
        muts = [m for i, m in enumerate(muts) if i % n == k]
    if args.limit:
        muts = muts[:args.limit]
    print('%d mutants to run' % len(muts))
    shutil.rmtree(SCRATCH, ignore_errors=True)
    os.makedirs(SCRATCH)
    for k in range(args.jobs):
        prepare_slot(k)
    import queue
    import threading
    q = queue.Queue()
    for m in muts:
        q.put(m)
    lock = threading.Lock()
    n = [0]

    def worker(slot):
        while True:
            try:
                m = q.get_nowait()
            except queue.Empty:
                return
            try:
                r = run_one((m, slot, args.workers, args.scale, None,
                             skip_suite))
            except Exception as e:
                r = dict(m, status='tool_error', note=repr(e)[:200])
                r.pop('a', None), r.pop('b', None)
            with lock:
                with open(OUT, 'a') as f:
                    f.write(json.dumps(r, sort_keys=True) + '\n')
                n[0] += 1
                print('[%d/%d] %-40s %-16s %s' % (
                    n[0], len(muts), r['id'], r['status'],
                    r.get('caught_by', '')), flush=True)

    ts = [threading.Thread(target=worker, args=(k,)) for k in range(args.jobs)]
    for t in ts:
        t.start()
    for t in ts:
        t.join()
    shutil.rmtree(SCRATCH, ignore_errors=True)
    summary()


if __name__ == '__main__':
    main()
