#!/bin/bash
# usage: seed_confirm.sh <worktree> <X> <check ids...>
# Confirms a seeded change (out/X.diff + out/X_demo.py in the worktree):
# suite still passes with it, demo fails with it and passes without it, then
# runs the given checks against the changed tree (LOMOND_REPO=<worktree>).
WT=$1; X=$2; shift 2
cd $WT || exit 9
git checkout -q -- lomond; git checkout -q --detach main
echo "== demo on original"; timeout 120 /venv/bin/python out/${X}_demo.py >/tmp/demo_orig.$$ 2>&1; echo "exit=$? $(tail -1 /tmp/demo_orig.$$)"
git apply out/$X.diff || { echo "PATCH DOES NOT APPLY"; exit 9; }
echo "== suite with change"; unshare -n sh -c "ip link set lo up; timeout 900 /venv/bin/python -m pytest -q -p no:cacheprovider --timeout=900 tests 2>&1 | tail -1"
echo "== demo with change"; timeout 120 /venv/bin/python out/${X}_demo.py >/tmp/demo_mut.$$ 2>&1; echo "exit=$? $(tail -1 /tmp/demo_mut.$$)"
for c in "$@"; do
  echo "== check $c against changed tree"
  (cd /verif && LOMOND_REPO=$WT timeout 1200 ./check $c --tier quick --no-evidence 2>&1 | grep -E "VIOLATION|KNOWN|HARNESS|key=|tier=" | head -12)
done
git checkout -q -- lomond; git checkout -q --detach main
rm -f /tmp/demo_orig.$$ /tmp/demo_mut.$$
