#!/bin/bash
# usage: tools/soak.sh <first seed> <last seed> [tier] [checks...]
# Runs every check for a range of VERIF_SEED values without touching the
# evidence files; prints one line per non-zero exit.  A non-zero exit on the
# unchanged tree is a false alarm (or a genuine finding) to investigate.
cd "$(dirname "$0")/.."
A=$1; B=$2; TIER=${3:-quick}; shift 3
CHECKS=${@:-C01 C02 C03 C04 C05 C06 C07 C08 C09 C10 C11 C12 C13 C14 C15 C16 C17 C18 C19}
bad=0
for s in $(seq $A $B); do
  for c in $CHECKS; do
    out=$(VERIF_SEED=$s ./check $c --tier $TIER --no-evidence 2>&1); rc=$?
    if [ $rc -ne 0 ]; then bad=$((bad+1)); echo "seed=$s check=$c exit=$rc"; echo "$out" | grep -E "VIOLATION|key=|HARNESS|^  " | head -8; fi
  done
  echo "seed $s done (bad so far: $bad)"
done
echo "soak finished: $bad non-zero exits"
