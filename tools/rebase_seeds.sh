#!/bin/bash
# Re-base seeded patches that no longer apply to /repo HEAD (after a fix:
# commit): tries `patch --fuzz=3` in a scratch worktree, rewrites patch.diff
# when that works and the tree still compiles; lists the rest for manual work.
WT=/tmp/wt-rebase
git -C /repo worktree remove --force $WT 2>/dev/null
git -C /repo worktree add -q --detach $WT HEAD || exit 2
cd $WT
for d in /verif/seeded/*/; do
  p=$d/patch.diff
  [ -f $p ] || continue
  if git apply --check $p 2>/dev/null; then continue; fi
  git checkout -q -- lomond; git clean -fdq lomond
  if patch -p1 --fuzz=3 --no-backup-if-mismatch -s < $p >/dev/null 2>&1 && /venv/bin/python -m compileall -q lomond >/dev/null; then
    git diff > $p.new
    git checkout -q -- lomond; git clean -fdq lomond
    if git apply --check $p.new 2>/dev/null; then mv $p.new $p; echo "rebased $(basename $d)"; else rm -f $p.new; echo "MANUAL  $(basename $d)"; fi
  else
    echo "MANUAL  $(basename $d)"
  fi
  git checkout -q -- lomond; git clean -fdq lomond
done
cd /; git -C /repo worktree remove --force $WT
