#!/bin/sh
# Offline set-up after a fresh restore: make sure /venv/bin/python can import
# six and the lomond working tree; nothing is downloaded, nothing kept in /tmp.
set -e
cd "$(dirname "$0")"
PY=/venv/bin/python
if ! $PY -c "import six" 2>/dev/null; then
    /venv/bin/pip install --no-index --find-links /opt/veriftools/wheels six
fi
$PY - <<'PYEOF'
import sys
sys.path.insert(0, '/repo')
import lomond, os
assert os.path.realpath(os.path.dirname(lomond.__file__)) == '/repo/lomond', lomond.__file__
print('lomond', lomond.__version__ if hasattr(lomond, '__version__') else '', 'from', lomond.__file__)
PYEOF
mkdir -p evidence replays
./check selftest --reduced
