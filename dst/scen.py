"""Helpers for building scenarios (plain JSON-able data) and the seeded PRNG
discipline: one integer decides everything."""
import hashlib
import random

from . import peer

GOOD_REPLY = (b'HTTP/1.1 101 Switching Protocols\r\n'
              b'Upgrade: websocket\r\n'
              b'Connection: Upgrade\r\n'
              b'Sec-WebSocket-Accept: @@ACCEPT@@\r\n')


def run_seed(base_seed, prop, index):
    """SHA-256 (never Python's hash) of (VERIF_SEED, property, run index)."""
    h = hashlib.sha256(('%d/%s/%d' % (base_seed, prop, index)).encode())
    return int.from_bytes(h.digest()[:8], 'big')


def rng_for(base_seed, prop, index):
    return random.Random(run_seed(base_seed, prop, index))


def reply_tmpl(extra_headers=(), status=b'101 Switching Protocols'):
    lines = [b'HTTP/1.1 ' + status, b'Upgrade: websocket',
             b'Connection: Upgrade', b'Sec-WebSocket-Accept: @@ACCEPT@@']
    lines.extend(extra_headers)
    return b'\r\n'.join(lines) + b'\r\n\r\n'


def handshake_steps(extra_headers=(), cuts=None, gap=0, accept='ok',
                    tmpl=None, after=0):
    t = tmpl if tmpl is not None else reply_tmpl(extra_headers)
    step = {'op': 'reply', 'tmpl': t.hex(), 'accept': accept}
    if cuts:
        step['cuts'] = list(cuts)
    if gap:
        step['gap'] = gap
    if after:
        step['after'] = after
    return [{'op': 'await_request'}, step]


def send(data, after=0):
    s = {'op': 'send', 'hex': bytes(data).hex()}
    if after:
        s['after'] = after
    return s


def chunks(data, cuts, gap=0, first_after=0):
    """One send step per piece of `data` cut at offsets `cuts`."""
    from .world import split_at
    out = []
    for i, p in enumerate(split_at(data, cuts)):
        out.append(send(p, after=(first_after if i == 0 else gap)))
    return out


def eof(after=0):
    return {'op': 'eof', 'after': after}


def rst(after=0):
    return {'op': 'rst', 'after': after}


def deflate_ext_header(sbits=None, cbits=None, snct=False, cnct=False,
                       rng=None):
    """A Sec-WebSocket-Extensions reply header with optional spelling noise."""
    params = []
    if sbits is not None:
        params.append('server_max_window_bits=%d' % sbits)
    if cbits is not None:
        params.append('client_max_window_bits=%d' % cbits)
    if snct:
        params.append('server_no_context_takeover')
    if cnct:
        params.append('client_no_context_takeover')
    if rng is not None:
        rng.shuffle(params)
        out = []
        for p in params:
            if '=' in p and rng.random() < 0.3:
                k, v = p.split('=')
                p = '%s="%s"' % (k, v)
            if rng.random() < 0.3:
                p = p.replace('=', ' = ') if '"' not in p else p
            out.append(p)
        params = out
        sep = rng.choice(['; ', ';', ' ; ', ';  ', ';\r\n ', ';\r\n\t',
                          '; \r\n\t '])
    else:
        sep = '; '
    return ('Sec-WebSocket-Extensions: ' +
            sep.join(['permessage-deflate'] + params)).encode()


# payload material -----------------------------------------------------------

SIZES_BOUNDARY = [0, 1, 2, 125, 126, 127, 65535, 65536, 65537]

_TEXT_ALPHABETS = [
    u'abcdefghij KLMNOP 0123456789',
    u'éüñßЖΩ',            # 2-byte
    u'€中文ह￮�',            # 3-byte
    u'\U0001F600\U00010348\U0010FFFF\U00020000',        # 4-byte
    u'\x00\x7f\r\n',                                     # controls
    u'{}{0}{x!r}%s%d%(a)s{{}}',     # format-string metacharacters
    u'﻿ࠀ퟿',                         # boundaries
]


def rand_text(rng, nchars):
    if nchars == 0:
        return u''
    k = rng.randrange(1, len(_TEXT_ALPHABETS) + 1)
    alph = u''.join(rng.sample(_TEXT_ALPHABETS, k))
    if nchars > 2000:
        base = u''.join(rng.choice(alph) for _ in range(97))
        return (base * (nchars // 97 + 1))[:nchars]
    return u''.join(rng.choice(alph) for _ in range(nchars))


def rand_bytes(rng, n):
    if n == 0:
        return b''
    mode = rng.randrange(6)
    if mode == 5 and n >= 16:
        # incompressible (deflate falls back to stored blocks) and containing
        # the four octets of the sync-flush tail, 00 00 ff ff
        seed = rng.getrandbits(64).to_bytes(8, 'big')
        out = b''
        k = 0
        while len(out) < n:
            out += hashlib.sha256(seed + k.to_bytes(4, 'big')).digest()
            k += 1
        out = bytearray(out[:n])
        for _ in range(rng.choice([1, 1, 3])):
            at = rng.randrange(0, n - 4)
            out[at:at + 4] = b'\x00\x00\xff\xff'
        return bytes(out)
    if mode == 0:
        return bytes([rng.randrange(256)]) * n
    if mode == 1:
        # looks like frame headers / http terminators
        pat = rng.choice([b'\x81\x7e\x00\x05', b'\x88\x02\x03\xe8',
                          b'\r\n\r\n', b'\x89\x00\x8a\x00', b'\x00\x00\xff\xff'])
        return (pat * (n // len(pat) + 1))[:n]
    if n > 4096:
        seed = rng.getrandbits(64).to_bytes(8, 'big')
        blk = hashlib.sha256(seed).digest() * 8
        return (blk * (n // len(blk) + 1))[:n]
    return bytes(rng.getrandbits(8) for _ in range(n))


def far_repeat(rng, n):
    """n bytes in which blocks repeat at distances around the deflate window
    sizes (256 B .. 32 KiB): back-references that only a large enough window
    can resolve."""
    if n <= 0:
        return b''
    blk = rng.choice([300, 600, 1100, 2100, 5000, 9000, 17000, 33000])
    seed = rng.getrandbits(64).to_bytes(8, 'big')
    block = b''
    i = 0
    while len(block) < min(blk, n):
        block += hashlib.sha256(seed + bytes([i % 256, i // 256])).digest()
        i += 1
    block = block[:blk]
    return (block * (n // len(block) + 2))[:n]


def rand_cuts(rng, n, maxcuts=8):
    if n <= 1:
        return []
    k = rng.randrange(0, min(maxcuts, n - 1) + 1)
    return sorted(rng.sample(range(1, n), k))
