"""Oracles shared by several properties.  No lomond imports."""
from . import peer

TERMINAL = ('connect_fail', 'disconnected')
AFTER_READY_ONLY = ('text', 'binary', 'ping', 'pong', 'poll', 'closing',
                    'closed', 'unresponsive')
KNOWN_NAMES = set(TERMINAL + AFTER_READY_ONLY + (
    'connecting', 'connected', 'ready', 'rejected', 'protocol_error',
    'back_off', 'unknown'))


def split_attempts(events):
    """Split a (persist / reconnect) event list into connection attempts."""
    attempts = []
    cur = []
    for e in events:
        if e.name in ('back_off', '--reconnect--'):
            if cur:
                attempts.append(cur)
            cur = []
            continue
        if e.name == 'connecting' and cur:
            attempts.append(cur)
            cur = []
        cur.append(e)
    if cur:
        attempts.append(cur)
    return attempts


def automaton(events, complete=True):
    """C07 event-order automaton over one connection attempt.

    Returns a list of (kind, message)."""
    probs = []
    names = [e.name for e in events]
    if not names:
        if complete:
            probs.append(('empty', 'no event yielded'))
        return probs
    if names[0] != 'connecting':
        probs.append(('first_not_connecting', 'first event is %s' % names[0]))
    state = 'START'
    ready = 0
    for i, n in enumerate(names):
        if n not in KNOWN_NAMES:
            probs.append(('unknown_event', n))
            continue
        if state == 'END':
            probs.append(('event_after_terminal',
                          '%s at %d after terminal event' % (n, i)))
            continue
        if n == 'connecting':
            if state != 'START':
                probs.append(('connecting_twice', 'connecting at %d' % i))
            state = 'C'
        elif n == 'connect_fail':
            if state != 'C':
                probs.append(('connect_fail_misplaced',
                              'connect_fail at %d in state %s' % (i, state)))
            state = 'END'
        elif n == 'connected':
            if state != 'C':
                probs.append(('connected_misplaced',
                              'connected at %d in state %s' % (i, state)))
            state = 'K'
        elif n == 'ready':
            ready += 1
            if state != 'K':
                probs.append(('ready_misplaced',
                              'ready at %d in state %s' % (i, state)))
            if ready > 1:
                probs.append(('ready_twice', 'second ready at %d' % i))
            state = 'R'
        elif n in AFTER_READY_ONLY:
            if state != 'R':
                probs.append(('before_ready',
                              '%s at %d in state %s' % (n, i, state)))
        elif n == 'disconnected':
            if state not in ('K', 'R'):
                probs.append(('disconnected_misplaced',
                              'disconnected at %d in state %s' % (i, state)))
            state = 'END'
        elif n in ('rejected', 'protocol_error'):
            if state not in ('K', 'R'):
                probs.append((n + '_misplaced',
                              '%s at %d in state %s' % (n, i, state)))
            if n == 'rejected' and state == 'R':
                probs.append(('rejected_after_ready', 'at %d' % i))
        elif n == 'back_off':
            probs.append(('back_off_inside_attempt', 'at %d' % i))
    if complete and state != 'END':
        probs.append(('no_terminal', 'sequence ends in state %s: %s' % (
            state, names[-6:])))
    nterm = sum(1 for n in names if n in TERMINAL)
    if nterm > 1:
        probs.append(('two_terminals', '%d terminal events' % nterm))
    return probs


def trace_sanity(trace, complete=True):
    """C07 checks on a whole trace (all attempts) + iterator discipline."""
    probs = []
    if trace.hang:
        probs.append(('hang', trace.hang))
    if trace.escaped:
        probs.append(('escaped', '%s: %s' % trace.escaped))
    aband = trace.abandoned is not None
    attempts = split_attempts(trace.events)
    for k, att in enumerate(attempts):
        last = (k == len(attempts) - 1)
        comp = complete and not (last and (aband or trace.hang or
                                           trace.escaped))
        probs.extend(automaton(att, comp))
    if trace.finished:
        for r in trace.after_stop:
            if r != 'stop':
                probs.append(('iterator_not_finished', r))
    return probs


class Wire(object):
    """Decoded client->server bytes of one fake socket."""

    def __init__(self, st, n_http=1):
        data = bytes(st.out_bytes)
        self.data = data
        self.requests = []
        pos = 0
        self.ok = True
        for _ in range(n_http):
            idx = data.find(b'\r\n\r\n', pos)
            if idx < 0:
                break
            self.requests.append(data[pos:idx + 4])
            pos = idx + 4
        self.frames_start = pos
        if len(self.requests) < n_http:
            # no complete request: everything is "request bytes"
            self.frames = []
            self.rest = len(data)
            self.incomplete = False
            return
        self.frames, self.rest = peer.decode_frames(data, pos)
        self.incomplete = self.rest != len(data)

    def opcodes(self):
        return [f.opcode for f in self.frames]


def wire_problems(wire, compression):
    """C03 monitor: every frame the client wrote is a valid client frame."""
    probs = []
    if wire.incomplete:
        probs.append(('torn_frame', 'bytes after offset %d are not a whole '
                      'frame' % wire.rest))
    for f in wire.frames:
        p = peer.client_frame_problems(f, compression)
        if p:
            probs.append(('bad_client_frame:' + '+'.join(p), repr(f)))
    return probs


def close_discipline(wire):
    """<= 1 Close per connection and no data frame after it (C08/C12)."""
    probs = []
    closes = [i for i, f in enumerate(wire.frames) if f.opcode == peer.OP_CLOSE]
    if len(closes) > 1:
        probs.append(('two_closes', '%d Close frames written' % len(closes)))
    if closes:
        after = [f for f in wire.frames[closes[0] + 1:]
                 if f.opcode in (peer.OP_TEXT, peer.OP_BIN, peer.OP_CONT)]
        if after:
            probs.append(('data_after_close', repr(after[:3])))
    return probs


def msg_events(trace, names=('text', 'binary', 'ping', 'pong', 'closing',
                             'closed')):
    return [e for e in trace.events if e.name in names]


def payload_of(snap):
    """(name, payload...) comparable tuple from an event snapshot."""
    n = snap[0]
    if n in ('text', 'binary', 'ping', 'pong'):
        return (n, snap[2])
    if n in ('closing', 'closed'):
        return (n, snap[1], snap[2])
    return (n,)


def sock_sig(trace):
    return ';'.join('%d:%d:%d' % (s.closed, s.n_sendall, s.delivered_total)
                    for s in trace.world.socks)
