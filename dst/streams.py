"""Abstract message lists -> server byte streams (shared by C01, C02, C04,
C14, C17 ...).  The expected event list is derived from the abstract list,
never from a re-parse of the bytes."""
import collections
import random

from . import peer, scen as S

OPC = {'text': 1, 'binary': 2, 'ping': 9, 'pong': 10, 'close': 8}


def ctl_item(rng):
    kind = rng.choice(['ping', 'ping', 'pong'])
    n = rng.choice([0, 1, 2, 125, rng.randrange(0, 126)])
    it = {'kind': kind, 'hex': S.rand_bytes(rng, n).hex()}
    if rng.random() < 0.15:
        # a control payload of <= 125 bytes in the 16- or 64-bit length form
        it['lenform'] = rng.choice([16, 64])
    return it


def data_item(rng, size, kind=None, maxfrag=6):
    kind = kind or ('text' if rng.random() < 0.5 else 'binary')
    it = {'kind': kind}
    if kind == 'text':
        it['text'] = S.rand_text(rng, size if size < 3000 else size // 3)
        plen = len(it['text'].encode('utf-8'))
    else:
        it['hex'] = S.rand_bytes(rng, size).hex()
        plen = size
    nfr = rng.choice([n for n in [1, 1, 1, 2, 2, 3, 4, 6] if n <= maxfrag])
    cuts = []
    for _ in range(nfr - 1):
        cuts.append(rng.choice([0, plen, rng.randrange(0, plen + 1)]))
    it['cuts'] = sorted(cuts)
    it['lenforms'] = [rng.choice([None, None, None, 16, 64])
                      for _ in range(nfr)]
    inner = []
    for _ in range(nfr - 1):
        k = rng.choice([0, 0, 1, 1, 2])
        inner.append([ctl_item(rng) for _ in range(k)])
    it['inner'] = inner
    return it


def make_items(rng, nmax=8, big=False):
    items = []
    for _ in range(rng.randrange(1, nmax + 1)):
        if rng.random() < 0.3:
            items.append(ctl_item(rng))
            continue
        if big:
            size = rng.choice([65535, 65536, 65537, 70000,
                               rng.randrange(65538, 300000)])
        else:
            size = rng.choice([0, 1, 2, 125, 126, 127, 200, 1000,
                               rng.randrange(0, 300), rng.randrange(0, 5000)])
        items.append(data_item(rng, size))
    return items


def item_payload(it):
    if it.get('fill'):
        # compact form of a large payload: n bytes of a repeating pattern
        n, pat = it['fill']
        pat = bytes.fromhex(pat)
        return (pat * (n // len(pat) + 1))[:n]
    if it['kind'] == 'text':
        return it['text'].encode('utf-8')
    return bytes.fromhex(it['hex'])


class Encoded(object):
    def __init__(self):
        self.stream = bytearray()
        self.expected = []
        self.probes = collections.Counter()
        self.layout = []
        self.header_spans = []
        self.frame_ends = []
        self.expected_ends = []   # stream length when expected[i] completed


def emit(enc, op, payload, fin=1, lenform=None, **kw):
    n = len(payload)
    if lenform == 16 and n >= 65536:
        lenform = None
    if lenform is not None and ((lenform == 16 and n < 126) or
                                (lenform == 64 and n < 65536)):
        enc.probes['nonminimal_len'] += 1
    if n >= 65536 or lenform == 64:
        enc.probes['len64'] += 1
    fr = peer.enc_frame(op, payload, fin=fin, lenform=lenform, **kw)
    enc.header_spans.append((len(enc.stream), len(enc.stream) + len(fr) - n))
    enc.stream.extend(fr)
    enc.frame_ends.append(len(enc.stream))
    enc.layout.append('%d%s%d' % (op, 'F' if fin else 'f',
                                  0 if n == 0 else (1 if n < 126 else
                                                    (2 if n < 65536 else 3))))


def encode_items(items, enc=None, stop_after_frags=None, transform=None):
    """Append the frames of `items` to enc.  `stop_after_frags` (int): leave
    the LAST data item unfinished after that many fragments (its message is
    then not expected).  transform(payload, item) -> wire payload (used for
    compression) is applied per message before fragmentation; it returns
    (wire_payload, rsv1)."""
    enc = enc or Encoded()
    for idx, it in enumerate(items):
        kind = it['kind']
        if kind in ('ping', 'pong'):
            data = bytes.fromhex(it['hex'])[:125]
            emit(enc, OPC[kind], data, lenform=it.get('lenform'))
            enc.expected.append((kind, data))
            enc.expected_ends.append(len(enc.stream))
            continue
        if kind == 'close':
            emit(enc, 8, peer.enc_close_payload(it.get('code'),
                                                it.get('reason', '')))
            enc.expected.append(('closing', it.get('code'),
                                 it.get('reason', '') if it.get('code')
                                 is not None else ''))
            enc.expected_ends.append(len(enc.stream))
            enc.probes['final_close'] += 1
            continue
        payload = item_payload(it)
        wire = payload
        rsv1 = 0
        if transform is not None:
            wire, rsv1 = transform(payload, it)
        cuts = [min(max(c, 0), len(wire)) for c in it.get('cuts', [])]
        bounds = [0] + sorted(cuts) + [len(wire)]
        nfr = len(bounds) - 1
        if nfr > 1:
            enc.probes['fragmented'] += 1
        lenforms = it.get('lenforms') or []
        inner = it.get('inner') or []
        last = (idx == len(items) - 1)
        complete = True
        for k in range(nfr):
            if last and stop_after_frags is not None and k >= stop_after_frags:
                complete = False
                break
            part = wire[bounds[k]:bounds[k + 1]]
            if nfr > 1 and not part:
                enc.probes['empty_fragment'] += 1
            emit(enc, OPC[kind] if k == 0 else 0, part,
                 fin=1 if k == nfr - 1 else 0,
                 lenform=lenforms[k] if k < len(lenforms) else None,
                 rsv1=rsv1 if k == 0 else 0)
            if k < nfr - 1 and k < len(inner):
                if last and stop_after_frags is not None and \
                        k + 1 >= stop_after_frags:
                    continue
                for c in inner[k]:
                    data = bytes.fromhex(c['hex'])[:125]
                    emit(enc, OPC[c['kind']], data, lenform=c.get('lenform'))
                    enc.expected.append((c['kind'], data))
                    enc.expected_ends.append(len(enc.stream))
                    enc.probes['ctl_between_fragments'] += 1
        if complete:
            if kind == 'text':
                enc.expected.append(('text', payload.decode('utf-8')))
            else:
                enc.expected.append(('binary', payload))
            enc.expected_ends.append(len(enc.stream))
    return enc


REPLY_LEN_DELTA = 28 - len(b'@@ACCEPT@@')


def reply_len(tmpl):
    return len(tmpl) + REPLY_LEN_DELTA if b'@@ACCEPT@@' in tmpl else len(tmpl)


def choose_cuts(case, enc, rlen, total):
    """Segmentation of the whole stream (reply + frames) from case fields
    seg / ncuts / cut_seed / cuts."""
    mode = case.get('seg', 'one')
    rng = random.Random(case.get('cut_seed', 0))
    if case.get('cuts') is not None:
        cuts = list(case['cuts'])
    elif mode == 'one':
        cuts = []
    elif mode == 'reply_alone':
        cuts = [rlen]
    elif mode == 'bytes':
        cuts = list(range(1, min(total, 600))) if total < 3000 else [rlen]
    else:
        cuts = sorted(set(rng.randrange(1, total)
                          for _ in range(case.get('ncuts', 3)))) \
            if total > 1 else []
        if enc.header_spans and rng.random() < 0.7:
            a, b = rng.choice(enc.header_spans)
            if b - a > 1:
                cuts.append(rlen + rng.randrange(a + 1, b))
        cuts = sorted(set(cuts))
    if rlen not in cuts and enc.stream:
        enc.probes['reply_and_frames_same_read'] += 1
    for a, b in enc.header_spans:
        if any(rlen + a < c < rlen + b for c in cuts):
            enc.probes['cut_inside_header'] += 1
            break
    return cuts


def seg_fields(rng, big=False):
    mode = rng.choice(['one', 'reply_alone', 'cuts', 'cuts', 'bytes'])
    if big and mode == 'bytes':
        mode = 'cuts'
    return {'seg': mode, 'ncuts': rng.randrange(1, 12),
            'cut_seed': rng.getrandbits(32),
            'gaps': [rng.choice([0, 0, 0, 1000, 200000, 6000000])
                     for _ in range(4)]}


def stream_scenario(case, enc, tail, extra_headers=(), connect=None,
                    ws=None, app=None, url='ws://example.test/'):
    """One-connection scenario whose whole server stream is a single reply
    step (so that other checks can re-segment it)."""
    reply = S.reply_tmpl(extra_headers)
    rlen = reply_len(reply)
    total = rlen + len(enc.stream)
    cuts = choose_cuts(case, enc, rlen, total)
    step = {'op': 'reply', 'tmpl': (reply + bytes(enc.stream)).hex(),
            'accept': 'ok', 'cuts': cuts, 'gaps': case.get('gaps') or [0]}
    sc = {
        'url': url,
        'epoch': case.get('epoch', 0),
        'connect': connect or {},
        'conns': [{'server': [{'op': 'await_request'}, step] + list(tail)}],
    }
    if ws:
        sc['ws'] = ws
    if app:
        sc['app'] = app
    sc['_rlen'] = rlen
    sc['_total'] = total
    return sc
