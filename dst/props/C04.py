"""C04 - protocol violations are detected, reported once, and fail the
connection."""
import struct

from .. import netsim, oracle, peer, scen as S, streams as ST
from ..runner import Result

ID = 'C04'
LEVEL = 'exploration'
RULE = ('seeded family: valid prefix (possibly ending inside a fragmented '
        'message) + exactly one violating frame of a seeded class + 0-3 valid '
        'trailing frames with marker payloads, seeded segmentation; header '
        'sweep: all 65536 (byte1, byte2) first-frame headers, each classified '
        'by an independent reference as deliverable or violating.  '
        'Non-trivial = reached Ready; distinct = distinct (violation class, '
        'position, prefix layout, cut count) signatures')
RULE += (' '
         'Further families: `busy` (keep-alive on and application handlers '
         'that take simulated time: after the ProtocolError event only the '
         'one Close may be written), ThreadSim `threaded_*` (the event loop '
         'fails the connection while application threads send: one Close at '
         'most, nothing after it), RSV1 after an earlier connection of the '
         'object that legally received compressed frames, invalid UTF-8 '
         'inside non-final fragments of 64-128 KiB.')
SHRINK_LISTS = [('items',), ('items', '*', 'inner', '*'), ('trailing',),
                ('schedule', 'points'),
                ('cuts',)]
EXPECTED_PROBES = ['inside_fragmented', 'has_trailing', 'cut_inside_violation',
                   'violation_while_closing', 'offer_declined',
                   'empty_first_fragment', 'ctl_before_new_data_frame',
                   'big_nonfinal_fragment', 'keepalive_and_slow_handlers',
                   'after_compressed_connection',
                   'threaded_violation_vs_senders']
ASSUMPTIONS = ['close codes 1012-1014 and >= 5000 and RSV1 on control frames '
               'under compression are not generated (the property does not '
               'quantify over them)']

CLASSES = [
    'reserved_opcode', 'rsv_no_ext', 'rsv23_with_ext', 'fragmented_control',
    'control_126', 'control_127form', 'masked', 'orphan_continuation',
    'new_data_inside_fragmented', 'len_2_63', 'len_all_ones', 'close_1byte',
    'close_reserved_code', 'bad_utf8_single', 'bad_utf8_later_fragment',
    'bad_utf8_split_across', 'bad_utf8_close_reason', 'truncated_utf8_end',
    'bad_utf8_big_nonfinal',
]

MARK = b'TRAILING-MARKER-'


_RACE = [None]


def _race():
    from . import _threads as T
    if _RACE[0] is None:
        _RACE[0] = T.RaceFamily(TBASES)
    return _RACE[0]


def plan(tier):
    if tier == 'quick':
        return [('headers', 65536), ('seeded', 6000), ('busy', 1500),
                ('threaded_sweep', len(TBASES) * TSLOT * 2),
                ('threaded_race', _race().size(tier)),
                ('threaded_random', 300)]
    return [('headers', 65536), ('seeded', 300000), ('busy', 60000),
            ('threaded_sweep', len(TBASES) * TSLOT * 2),
            ('threaded_race', _race().size(tier)),
            ('threaded_random', 30000)]


TSLOT = 2500
_TXT = {'op': 'send_text', 'text': 'T1-0-' + 'd' * 60}
_BIN = {'op': 'send_binary', 'hex': ('T2-0-' + 'e' * 140).encode().hex()}
TBASES = [
    {'name': 'violation_vs_text', 'threads': [[_TXT]], 'loop': ['bad_opcode']},
    {'name': 'violation_vs_two_senders', 'threads': [[_TXT], [_BIN]],
     'loop': ['text', 'bad_opcode']},
    {'name': 'critical_violation_vs_text', 'threads': [[_TXT, _BIN]],
     'loop': ['bad_utf8']},
    {'name': 'violation_vs_close', 'threads': [[{'op': 'close', 'code': 1000,
                                                 'reason': 'app'}]],
     'loop': ['bad_opcode']},
]
_TINFO = {}


def _tinfo(b):
    from . import _threads as T
    if b not in _TINFO:
        _TINFO[b] = T.default_steps(TBASES[b])
    return _TINFO[b]


def _threaded_case(family, i, rng, tier='quick'):
    import copy
    from . import _threads as T
    if family == 'threaded_race':
        # sets of pre-emption sites among the points where the threads touch
        # the same field (see _threads.race_candidates)
        case = _race().case(i, tier)
    elif family == 'threaded_sweep':
        senders_first = i >= len(TBASES) * TSLOT
        i %= len(TBASES) * TSLOT
        b = i // TSLOT
        n, nt = _tinfo(b)
        slot = i % TSLOT
        step, who = slot // (nt + 1), slot % (nt + 1)
        if step < 2 or step > n + 40:
            return None
        tid = who if who < nt else T.threadsim.CLOCK
        case = copy.deepcopy(TBASES[b])
        pts = [[step, tid]]
        if senders_first:
            pts = [[1, 1]] + pts
        case['schedule'] = {'kind': 'preempt', 'points': pts}
    else:
        case = copy.deepcopy(TBASES[rng.randrange(len(TBASES))])
        case['schedule'] = {'kind': 'random', 'seed': rng.getrandbits(32),
                            'stay': rng.choice([0.5, 0.8, 0.95])} \
            if rng.random() < 0.6 else \
            {'kind': 'pct', 'seed': rng.getrandbits(32),
             'd': rng.choice([1, 2, 3]), 'horizon': 500}
    case['threaded'] = True
    return case


def _execute_threaded(case):
    """The event loop fails the connection for a protocol violation while
    application threads are sending: after the (one) Close nothing else is
    written, and a call that lost the race gets a WebSocketError."""
    from . import _threads as T
    res = Result()
    sc, tr, sched = T.run(case)
    w = tr.world
    res.stats.update(w.stats)
    res.sim_us = w.now
    res.digest = T.digest(tr, sched)
    if sched.error is not None:
        raise RuntimeError('ThreadSim harness error: %r' % (sched.error,))
    base = case['name']
    if tr.hang:
        res.bad('C04/threaded/hang', tr.hang)
    if tr.escaped:
        res.bad('C04/threaded/escaped', '%s %s' % tr.escaped)
    wire = oracle.Wire(w.socks[-1])
    ops = [f.opcode for f in wire.frames]
    names = [e.name for e in tr.events]
    res.stats['probe:threaded_violation_vs_senders'] += 1
    if names.count('protocol_error') != 1:
        res.bad('C04/threaded/protocol_error_count',
                'events %s' % names[-6:])
    if ops.count(peer.OP_CLOSE) > 1:
        res.bad('C04/threaded/two_close_frames', 'wire %r | %s' % (
            ops, T.site_signature(sched)))
    if peer.OP_CLOSE in ops and not wire.incomplete:
        k = ops.index(peer.OP_CLOSE)
        if ops[k + 1:]:
            res.bad('C04/threaded/frame_after_close',
                    'wire %s | %s' % ([peer.OPNAME.get(o, o) for o in ops],
                                      T.site_signature(sched)))
    for c in tr.tcalls:
        if c.outcome == 'raised' and not c.exc_is_wse:
            res.bad('C04/threaded/loser_raised_%s' % c.exc,
                    '%s of thread %d' % (c.op['op'], c.tid))
    res.nontrivial = 'protocol_error' in names
    res.sig = 'thr|%s|%s' % (base, T.site_signature(sched))
    res.sample = {'base': base, 'schedule': case.get('schedule'),
                  'wire': [peer.OPNAME.get(o, o) for o in ops],
                  'events': names[-6:]}
    return res


# ---------------------------------------------------------------------------
# header sweep

def classify_header(b1, b2):
    """Reference classification of a first frame with this header when no
    extension is negotiated.  -> ('ok', expected_event | None) | ('bad',)"""
    fin = b1 >> 7
    rsv = (b1 >> 4) & 7
    op = b1 & 15
    mask = b2 >> 7
    l7 = b2 & 127
    n = l7 if l7 < 126 else (126 if l7 == 126 else 65536)
    if rsv:
        return ('bad',)
    if op in (3, 4, 5, 6, 7, 11, 12, 13, 14, 15):
        return ('bad',)
    if mask:
        return ('bad',)
    if op >= 8 and (not fin or n > 125):
        return ('bad',)
    if op == 0:
        return ('bad',)
    if op == 8:
        if n == 1:
            return ('bad',)
        if n == 0:
            return ('ok', ('closing', None, ''))
        return ('ok', ('closing', 1000, 'a' * (n - 2)))
    if op in (1, 2):
        if not fin:
            return ('ok', None)         # an unfinished message: no event
        return ('ok', ('text', 'a' * n) if op == 1 else ('binary', b'a' * n))
    if op == 9:
        return ('ok', ('ping', b'a' * n))
    if op == 10:
        return ('ok', ('pong', b'a' * n))
    raise AssertionError


def header_frame(b1, b2):
    op = b1 & 15
    l7 = b2 & 127
    n = l7 if l7 < 126 else (126 if l7 == 126 else 65536)
    if op == 8 and n >= 2:
        payload = b'\x03\xe8' + b'a' * (n - 2)
    else:
        payload = b'a' * n
    out = bytes([b1, b2])
    if l7 == 126:
        out += struct.pack('!H', n)
    elif l7 == 127:
        out += struct.pack('!Q', n)
    if b2 >> 7:
        key = b'\x11\x22\x33\x44'
        out += key + peer.xor_mask(key, payload)
    else:
        out += payload
    return out


# ---------------------------------------------------------------------------

def make_case(family, i, rng, tier):
    if family.startswith('threaded'):
        return _threaded_case(family, i, rng, tier)
    if family == 'headers':
        return {'header': [i >> 8, i & 255], 'seg': ['one', 'cuts'][i % 2],
                'cut_seed': i, 'ncuts': 3}
    cls = CLASSES[i % len(CLASSES)]
    items = ST.make_items(rng, 4) if rng.random() < 0.8 else []
    case = {'items': items, 'class': cls, 'vseed': rng.getrandbits(32)}
    if family == 'busy':
        # keep-alive on, and an application whose handlers take time: an
        # automatic Ping (or a Poll) may become due while the application
        # handles the ProtocolError event
        case['busy'] = {'rate': rng.choice([0.2, 0.5, 1.3]),
                        'poll': rng.choice([0.1, 0.1, 5]),
                        'sleep_us': rng.choice([300001, 700001, 2000001]),
                        'at': rng.choice([['protocol_error'],
                                          ['protocol_error', 'text', 'binary',
                                           'ping', 'pong']])}
    inside = False
    if cls in ('new_data_inside_fragmented', 'bad_utf8_later_fragment',
               'bad_utf8_split_across', 'bad_utf8_big_nonfinal'):
        inside = False      # these build their own fragmented message
    elif cls in ('orphan_continuation',):
        inside = False
    elif rng.random() < 0.35:
        inside = True
    if inside:
        # the prefix ends inside a fragmented data message
        it = ST.data_item(rng, rng.choice([10, 200, 1000]))
        plen = len(ST.item_payload(it))
        it['cuts'] = sorted(rng.randrange(0, plen + 1) for _ in range(2))
        it['lenforms'] = [None, None, None]
        it['inner'] = [[], []]
        if cls.startswith('bad_utf8') or cls == 'truncated_utf8_end':
            it = dict(it, kind='binary', hex=S.rand_bytes(rng, 50).hex())
            it.pop('text', None)
            it['cuts'] = [10, 20]
        case['items'] = items + [it]
        case['stop_after'] = rng.choice([1, 2])
    ntr = rng.choice([0, 1, 2, 3])
    trailing = []
    for k in range(ntr):
        kind = rng.choice(['text', 'binary', 'ping', 'pong'])
        body = MARK + bytes([65 + k]) * rng.choice([1, 30, 200])
        if kind in ('ping', 'pong'):
            trailing.append({'kind': kind, 'hex': body[:100].hex()})
        elif kind == 'text':
            trailing.append({'kind': 'text', 'text': body.decode(), 'cuts': []})
        else:
            trailing.append({'kind': 'binary', 'hex': body.hex(), 'cuts': []})
    case['trailing'] = trailing
    case.update(ST.seg_fields(rng))
    case['gaps'] = [rng.choice([0, 0, 1000]) for _ in range(3)]
    if rng.random() < 0.15:
        case['app_close'] = True
    if cls == 'rsv_no_ext' and rng.random() < 0.4:
        # permessage-deflate offered by the client, declined by the server:
        # RSV1 is still a violation
        case['offer_declined'] = True
        if rng.random() < 0.5:
            # ... although an earlier connection of the same object had it
            # accepted and received compressed frames
            case['earlier_compressed'] = True
    if cls in ('bad_utf8_later_fragment', 'bad_utf8_split_across') and \
            rng.random() < 0.35:
        case['empty_first'] = True
    case['compress'] = cls == 'rsv23_with_ext' or \
        (cls in ('reserved_opcode', 'masked', 'fragmented_control',
                 'control_126', 'close_1byte') and rng.random() < 0.2)
    return case


BAD_UTF8 = [b'\xff', b'\xc0\x80', b'\xc1\xbf', b'\xe0\x80\x80', b'\xe0\x9f\xbf',
            b'\xed\xa0\x80', b'\xed\xbf\xbf', b'\xf0\x80\x80\x80',
            b'\xf0\x8f\xbf\xbf', b'\xf4\x90\x80\x80', b'\xf5\x80\x80\x80',
            b'\x80', b'\xbf', b'\xc2\x41', b'\xe1\x80\x41', b'\xf1\x80\x80\x41',
            b'\xfe', b'\xf8\x88\x80\x80\x80']
TRUNC_UTF8 = [b'\xc2', b'\xe1', b'\xe1\x80', b'\xf1', b'\xf1\x80',
              b'\xf1\x80\x80', b'\xe0\xa0', b'\xf0\x90', b'\xf4\x8f\xbf']


def violation_frames(case, enc):
    """Append the violating frame(s); returns a label.  Frames appended
    before the violating one (to set up a fragmented message) are valid."""
    import random
    rng = random.Random(case.get('vseed', 0))
    cls = case['class']
    inside = case.get('stop_after') is not None
    st = enc.stream

    def vmark():
        enc.vstart = len(st)

    pay = b'VIOLATING-PAYLOAD-' + bytes([rng.randrange(65, 91)]) * rng.choice(
        [0, 1, 20, 100])
    if cls == 'reserved_opcode':
        vmark()
        op = rng.choice([3, 4, 5, 6, 7, 11, 12, 13, 14, 15])
        ST.emit(enc, op, pay[:rng.choice([0, 5, 100])],
                fin=rng.choice([0, 1]) if op < 8 else 1)
    elif cls == 'rsv_no_ext':
        vmark()
        r = rng.randrange(1, 8)
        if case.get('offer_declined') and rng.random() < 0.7:
            r = 4               # RSV1 only
        op = rng.choice([1, 2, 9, 10, 8] if not inside else [0, 9, 10])
        body = pay if op != 8 else peer.enc_close_payload(1000, 'x')
        ST.emit(enc, op, body[:120], rsv1=r >> 2, rsv2=(r >> 1) & 1, rsv3=r & 1)
    elif cls == 'rsv23_with_ext':
        vmark()
        r = rng.choice([1, 2, 3])
        # data frames, and control frames as well (also legal inside a
        # fragmented message): permessage-deflate defines RSV1 only
        op = rng.choice([1, 2, 8, 9, 10] if not inside else [0, 9, 10, 8])
        body = pay if op < 8 else (pay[:100] if op != 8 else
                                   peer.enc_close_payload(1000, 'x'))
        ST.emit(enc, op, body, rsv1=rng.choice([0, 1]) if op in (1, 2) else 0,
                rsv2=r >> 1, rsv3=r & 1)
    elif cls == 'fragmented_control':
        vmark()
        op = rng.choice([8, 9, 10])
        body = pay[:100] if op != 8 else peer.enc_close_payload(1000, 'x')
        ST.emit(enc, op, body, fin=0)
    elif cls == 'control_126':
        vmark()
        op = rng.choice([8, 9, 10])
        n = rng.choice([126, 127, 200, 1000])
        body = (b'\x03\xe8' if op == 8 else b'') + b'V' * n
        ST.emit(enc, op, body[:n])
    elif cls == 'control_127form':
        vmark()
        op = rng.choice([8, 9, 10])
        n = rng.choice([126, 65536])
        body = (b'\x03\xe8' if op == 8 else b'') + b'V' * n
        ST.emit(enc, op, body[:n], lenform=64)
    elif cls == 'masked':
        vmark()
        op = rng.choice([1, 2, 9, 10, 8] if not inside else [0, 9, 10])
        body = pay[:100] if op != 8 else peer.enc_close_payload(1000, 'x')
        ST.emit(enc, op, body, mask=bytes(rng.getrandbits(8) for _ in range(4)))
    elif cls == 'orphan_continuation':
        vmark()
        ST.emit(enc, 0, pay, fin=rng.choice([0, 1]))
    elif cls == 'new_data_inside_fragmented':
        ST.emit(enc, rng.choice([1, 2]), b'start-of-message', fin=0)
        if rng.random() < 0.5:
            ST.emit(enc, 0, b'-more', fin=0)
        if rng.random() < 0.5:
            # a legal control frame in between must not make the stream
            # forget that a message is open
            c = rng.choice([9, 10])
            ST.emit(enc, c, b'legal-ctl')
            enc.expected.append(('ping' if c == 9 else 'pong', b'legal-ctl'))
            enc.probes['ctl_before_new_data_frame'] += 1
        vmark()
        ST.emit(enc, rng.choice([1, 2]), pay, fin=rng.choice([0, 1]))
    elif cls in ('len_2_63', 'len_all_ones'):
        vmark()
        n = (1 << 63) if cls == 'len_2_63' else (1 << 64) - 1
        if rng.random() < 0.3 and cls == 'len_2_63':
            n = (1 << 63) + rng.randrange(1, 1 << 40)
        op = rng.choice([1, 2] if not inside else [0])
        st.extend(peer.enc_frame(op, b'', declared_len=n, lenform=64))
        st.extend(b'V' * rng.choice([0, 10, 100]))
        enc.frame_ends.append(len(st))
    elif cls == 'close_1byte':
        vmark()
        ST.emit(enc, 8, bytes([rng.choice([0, 3, 0x88, 255])]))
    elif cls == 'close_reserved_code':
        vmark()
        code = rng.choice([0, 1, 999, 1004, 1005, 1006, 1015, 1016, 1100,
                           2000, 2999])
        ST.emit(enc, 8, peer.enc_close_payload(code, rng.choice(['', 'why'])))
    elif cls == 'bad_utf8_single':
        vmark()
        bad = rng.choice(BAD_UTF8)
        pre = S.rand_text(rng, rng.choice([0, 3, 40])).encode('utf-8')
        post = rng.choice([b'', b'tail'])
        if inside:
            # the unfinished prefix message occupies the data channel: the
            # only text that can legally start here is a Close reason
            ST.emit(enc, 8, b'\x03\xe8' + rng.choice([b'', b'ok ']) + bad)
        else:
            ST.emit(enc, 1, pre + bad + post)
    elif cls == 'bad_utf8_later_fragment':
        good = S.rand_text(rng, rng.choice([1, 5, 60])).encode('utf-8')
        if case.get('empty_first'):
            ST.emit(enc, 1, b'', fin=0)
            ST.emit(enc, 0, good, fin=0)
        else:
            ST.emit(enc, 1, good, fin=0)
        if rng.random() < 0.4:
            ST.emit(enc, 9, b'between')
            enc.expected.append(('ping', b'between'))
        vmark()
        ST.emit(enc, 0, rng.choice([b'', b'ok ']) + rng.choice(BAD_UTF8) +
                rng.choice([b'', b' tail']), fin=rng.choice([0, 1]))
    elif cls == 'bad_utf8_split_across':
        seq = rng.choice([b'\xe2\x82\x41', b'\xf0\x9f\x98\x41', b'\xc3\x28',
                          b'\xed\xa0\x80', b'\xf4\x90\x80\x80',
                          b'\xe0\x80\xaf'])
        k = rng.randrange(1, len(seq))
        if case.get('empty_first'):
            ST.emit(enc, 1, b'', fin=0)
            ST.emit(enc, 0, b'abc' + seq[:k], fin=0)
        else:
            ST.emit(enc, 1, b'abc' + seq[:k], fin=0)
        vmark()
        ST.emit(enc, 0, seq[k:] + b'def', fin=rng.choice([0, 1]))
    elif cls == 'bad_utf8_big_nonfinal':
        # the offending byte sits in a non-final fragment that needs the
        # 64-bit length form; more frames follow before the message ends
        n = rng.choice([65536, 70000, 131072])
        k = rng.randrange(0, n - 4)
        body = bytearray(b'a' * n)
        bad = rng.choice(BAD_UTF8)
        body[k:k + len(bad)] = bad
        first_big = rng.random() < 0.5
        vmark()
        if first_big:
            ST.emit(enc, 1, bytes(body), fin=0)
        else:
            ST.emit(enc, 1, b'start ', fin=0)
            vmark()
            ST.emit(enc, 0, bytes(body), fin=0)
    elif cls == 'bad_utf8_close_reason':
        vmark()
        ST.emit(enc, 8, b'\x03\xe8' + rng.choice([b'', b'ok ']) +
                rng.choice(BAD_UTF8 + TRUNC_UTF8))
    elif cls == 'truncated_utf8_end':
        t = rng.choice(TRUNC_UTF8)
        if inside or rng.random() < 0.5:
            vmark()
            ST.emit(enc, 1 if not inside else 8,
                    (b'' if not inside else b'\x03\xe8') + b'abc' + t)
        else:
            ST.emit(enc, 1, b'abc', fin=0)
            vmark()
            ST.emit(enc, 0, b'def' + t, fin=1)
    else:
        raise ValueError(cls)
    enc.vend = len(st)
    return cls


def build(case):
    if 'header' in case:
        b1, b2 = case['header']
        enc = ST.Encoded()
        enc.vstart = 0
        fr = header_frame(b1, b2)
        enc.stream.extend(fr)
        enc.vend = len(fr)
        enc.header_spans.append((0, min(len(fr), 14)))
        verdict = classify_header(b1, b2)
        trailing = [{'kind': 'text', 'text': (MARK + b'T').decode(),
                     'cuts': []}]
        tenc = ST.encode_items(trailing)
        enc.stream.extend(tenc.stream)
        if verdict[0] == 'ok':
            if verdict[1] is not None:
                enc.expected.append(verdict[1])
            fin_data_open = (b1 & 15) in (1, 2) and not (b1 >> 7)
            closing = verdict[1] is not None and verdict[1][0] == 'closing'
            if fin_data_open:
                # a new text frame inside an unfinished message is itself a
                # violation -> the trailer is not delivered
                verdict = ('ok_then_bad',)
            elif closing:
                verdict = ('ok_closing',)
            else:
                enc.expected.extend(tenc.expected)
        sc = ST.stream_scenario(case, enc, [S.eof(after=1000)],
                                connect={'ping_rate': 0})
        return sc, enc, verdict
    enc = ST.Encoded()
    ST.encode_items(case.get('items') or [], enc,
                    stop_after_frags=case.get('stop_after'))
    enc.vstart = len(enc.stream)
    violation_frames(case, enc)
    prefix_expected = list(enc.expected)
    tenc = ST.encode_items(case.get('trailing') or [])
    enc.stream.extend(tenc.stream)
    extra = []
    ws = None
    if case.get('compress'):
        extra = [b'Sec-WebSocket-Extensions: permessage-deflate']
        ws = {'compress': True}
    elif case.get('offer_declined'):
        ws = {'compress': True}
        enc.probes['offer_declined'] += 1
    if case.get('empty_first'):
        enc.probes['empty_first_fragment'] += 1
    app = None
    if case.get('app_close'):
        app = [{'when': {'name': 'ready'},
                'do': [{'op': 'close', 'code': 1000, 'reason': 'app'}]}]
    connect = {'ping_rate': 0}
    busy = case.get('busy')
    if busy:
        # (no close timeout: with slow handlers it could end the connection
        # before the violating frame is read)
        connect = {'ping_rate': busy['rate'], 'poll': busy['poll'],
                   'close_timeout': None}
        app = list(app or []) + [
            {'when': {'name': n}, 'do': [{'op': 'sleep',
                                          'us': busy['sleep_us']}]}
            for n in busy['at']]
    sc = ST.stream_scenario(case, enc, [S.eof(after=1000000 if not busy
                                              else 5000000)],
                            extra_headers=extra, ws=ws, app=app,
                            connect=connect)
    enc.expected = prefix_expected
    if case.get('earlier_compressed'):
        dp = peer.DeflatePeer()
        z = dp.compress(b'compressed on the earlier connection ' * 3)
        fr = peer.enc_frame(1, z, rsv1=1) + \
            peer.enc_frame(2, z[:5], rsv1=1, fin=0) + \
            peer.enc_frame(0, z[5:], fin=1) + \
            peer.enc_frame(2, dp.compress(b'bin'), rsv1=1)
        first = {'server': S.handshake_steps(
            [b'Sec-WebSocket-Extensions: permessage-deflate']) +
            [S.send(fr), S.eof(after=1003)]}
        sc['conns'] = [first] + sc['conns']
        sc['n_connects'] = 2
        for rule in sc.get('app') or []:
            rule['when'] = dict(rule['when'], attempt=1)
        enc.probes['after_compressed_connection'] += 1
    return sc, enc, ('bad',)


def execute(case):
    if case.get('threaded'):
        return _execute_threaded(case)
    res = Result()
    sc, enc, verdict = build(case)
    tr = netsim.run(sc)
    res.stats.update(tr.world.stats)
    for k, v in enc.probes.items():
        res.stats['probe:' + k] += v
    res.sim_us = tr.world.now
    res.digest = tr.digest()
    if case.get('earlier_compressed'):
        tr.events = oracle.split_attempts(tr.events)[-1]
    names = tr.names()
    got = [oracle.payload_of(e.snap) for e in oracle.msg_events(tr)]
    cls = case.get('class', 'header')
    tag = cls if 'header' not in case else 'header'
    rlen = sc['_rlen']
    cuts = sc['conns'][-1]['server'][1]['cuts']
    if any(rlen + enc.vstart < c < rlen + enc.vend for c in cuts):
        res.stats['probe:cut_inside_violation'] += 1
    if case.get('class') == 'bad_utf8_big_nonfinal':
        res.stats['probe:big_nonfinal_fragment'] += 1
    if case.get('stop_after') is not None:
        res.stats['probe:inside_fragmented'] += 1
    if case.get('trailing'):
        res.stats['probe:has_trailing'] += 1
    nperr = names.count('protocol_error')
    disc = [e for e in tr.events if e.name == 'disconnected']
    wire = oracle.Wire(tr.world.socks[-1]) if tr.world.socks else None

    def marker_leak():
        for g in got:
            for v in g[1:]:
                if isinstance(v, str):
                    v = v.encode('utf-8', 'replace')
                if isinstance(v, bytes) and (MARK in v or b'VIOLATING' in v):
                    return g
        return None

    if verdict[0] == 'bad':
        if got != enc.expected:
            leak = marker_leak()
            if leak is not None or len(got) > len(enc.expected):
                res.bad('C04/%s/content_delivered' % tag,
                        'message events beyond the valid prefix: expected %d, '
                        'got %d: %r' % (len(enc.expected), len(got),
                                        _short(got[len(enc.expected):])))
            else:
                res.bad('C04/%s/prefix_not_delivered' % tag,
                        'expected prefix %r got %r' % (
                            _short(enc.expected), _short(got)))
        if nperr != 1:
            res.bad('C04/%s/protocol_error_count_%d' % (tag, min(nperr, 2)),
                    'expected exactly one ProtocolError, events=%s' % names[-8:])
        if not disc or disc[-1].snap[1]:
            res.bad('C04/%s/not_nongraceful' % tag,
                    'expected non-graceful Disconnected, events=%s' % names[-6:])
        if wire is not None:
            exp_pongs = [p[1] for p in enc.expected if p[0] == 'ping']
            if case.get('app_close'):
                # the application closed at Ready: no Pong may follow its
                # Close, and the one Close on the wire is the application's
                exp_pongs = []
                res.stats['probe:violation_while_closing'] += 1
            pongs = [f.payload for f in wire.frames if f.opcode == peer.OP_PONG]
            closes = [f for f in wire.frames if f.opcode == peer.OP_CLOSE]
            others = [f for f in wire.frames
                      if f.opcode not in (peer.OP_PONG, peer.OP_CLOSE)]
            perrs = [e for e in tr.events if e.name == 'protocol_error']
            if case.get('busy') and perrs:
                # automatic Pings are legitimate until the violation has been
                # reported; afterwards only the one Close may be written
                res.stats['probe:keepalive_and_slow_handlers'] += 1
                wseq = {}
                pos = 0
                for seq, now, data in tr.world.socks[-1].out:
                    wseq[pos] = seq
                    pos += len(data)
                late = [f for f in wire.frames
                        if wseq.get(f.start, 0) > perrs[0].seq and
                        f.opcode != peer.OP_CLOSE]
                others = [f for f in others if not (
                    f.opcode == peer.OP_PING and
                    wseq.get(f.start, 0) < perrs[0].seq)]
                if late:
                    res.bad('C04/%s/frame_written_after_protocol_error' % tag,
                            'after the ProtocolError event was yielded the '
                            'client wrote %r' % ([f.summary()['op']
                                                  for f in late],))
                    others = [f for f in others if f not in late]
            if pongs != exp_pongs or others or len(closes) > 1 or \
                    wire.incomplete:
                res.bad('C04/%s/wire_after_violation' % tag,
                        'client wrote %r' % ([f.summary() for f in
                                              wire.frames][-5:],))
            elif closes and wire.frames[-1].opcode != peer.OP_CLOSE and \
                    not case.get('app_close'):
                res.bad('C04/%s/frame_after_close' % tag, 'wire=%r' % (
                    [f.summary() for f in wire.frames][-5:],))
            for k, m in oracle.wire_problems(wire, bool(case.get('compress'))):
                res.bad('C04/%s/%s' % (tag, k), m)
    else:
        # deliverable header: the reference expects normal delivery
        if verdict[0] == 'ok_then_bad':
            if got != enc.expected or nperr != 1:
                res.bad('C04/header/fragment_then_new_data',
                        'got %r perr=%d' % (_short(got), nperr))
        elif verdict[0] == 'ok_closing':
            if got[:1] != enc.expected[:1] or nperr:
                res.bad('C04/header/valid_close_mishandled',
                        'expected %r got %r perr=%d' % (
                            _short(enc.expected), _short(got), nperr))
        elif got != enc.expected or nperr:
            res.bad('C04/header/valid_header_mishandled',
                    'expected %r got %r perr=%d' % (
                        _short(enc.expected), _short(got), nperr))
    for k, m in oracle.trace_sanity(tr):
        res.xobs.append('C07/' + k)
        if k in ('hang', 'escaped'):
            res.bad('C04/%s/%s' % (tag, k), m)
    res.nontrivial = 'ready' in names
    res.sig = '%s|%s|%s|%d' % (
        cls if 'header' not in case else 'h%04x' % (case['header'][0] << 8 |
                                                    case['header'][1]),
        case.get('stop_after'), ''.join(enc.layout), len(cuts))
    res.sample = {'class': cls, 'header': case.get('header'),
                  'prefix_items': len(case.get('items') or []),
                  'stop_after': case.get('stop_after'),
                  'trailing': len(case.get('trailing') or []),
                  'events': names[:20]}
    return res


def _short(lst):
    out = []
    for x in lst[:4]:
        out.append(tuple((v[:20] if isinstance(v, (bytes, str)) else v)
                         for v in x))
    return out
