"""C05 - text is delivered iff it is strictly valid UTF-8; fail-fast."""
import random

from .. import netsim, oracle, peer, scen as S, streams as ST
from ..runner import Result

ID = 'C05'
LEVEL = 'exploration'
RULE = ('seeded family: byte strings valid or carrying exactly one defect of '
        'each RFC 3629 kind at a seeded position, sent as a Text message (1-4 '
        'fragments cut at seeded byte positions incl. inside a code point, '
        'optional Ping between fragments, seeded reads, optionally compressed) '
        'or as a Close reason; sweep family: every validator context '
        '(representative prefix per distinct expected-next-byte range) x all '
        '256 next bytes x 4 suffixes x 3 splittings; stall family: the server '
        'delivers up to and including the first offending byte, then stays '
        'silent for 1000 virtual seconds - the ProtocolError must be yielded '
        'at the arrival time.  Verdict by the RFC 3629 range table, cross-'
        'checked against CPython on every string.  Non-trivial = reached '
        'Ready; distinct = distinct (payload, fragmentation, transport mode)')
SHRINK_LISTS = [('frag_cuts',), ('cuts',)]
EXPECTED_PROBES = ['valid', 'invalid', 'incomplete', 'split_inside_codepoint',
                   'ping_between_fragments', 'compressed', 'as_close_reason',
                   'stall_failfast_checked', 'compressed_large',
                   'valid_message_in_front', 'close_reason_of_greatest_length',
                   'offending_byte_not_last_in_read']
ASSUMPTIONS = ['the validator state x byte product is explored through the '
               'real receive path with representative prefixes, not by an '
               'exhaustive product over internal states (see DESIGN.md 10)']

CONTEXTS = [b'', b'\xc2', b'\xdf', b'\xe0', b'\xe1', b'\xec', b'\xed', b'\xee',
            b'\xef', b'\xf0', b'\xf1', b'\xf3', b'\xf4', b'\xe0\xa0',
            b'\xe1\x80', b'\xed\x9f', b'\xef\xbf', b'\xf0\x90', b'\xf1\x80',
            b'\xf4\x8f', b'\xf0\x90\x80', b'\xf1\x80\x80', b'\xf4\x8f\xbf',
            b'a', b'\xc3\xa9']
SUFFIXES = [b'', b'\x80', b'\xbf', b'A']
NSWEEP = len(CONTEXTS) * 256 * len(SUFFIXES)

DEFECTS = ['overlong_c0', 'overlong_c1', 'overlong_e0', 'overlong_f0',
           'surrogate_lo', 'surrogate_hi', 'above_max', 'f5_ff',
           'stray_continuation', 'truncated_end', 'truncated_then_ascii',
           'bad_continuation_3', 'bad_continuation_4']


def plan(tier):
    q = tier == 'quick'
    return [('sweep', NSWEEP * 3 if not q else NSWEEP),
            ('seeded', 4000 if q else 200000),
            ('stall', 3000 if q else 100000)]


def _defect(rng, kind):
    if kind == 'overlong_c0':
        return bytes([0xC0, rng.randrange(0x80, 0xC0)])
    if kind == 'overlong_c1':
        return bytes([0xC1, rng.randrange(0x80, 0xC0)])
    if kind == 'overlong_e0':
        return bytes([0xE0, rng.randrange(0x80, 0xA0), 0x80])
    if kind == 'overlong_f0':
        return bytes([0xF0, rng.randrange(0x80, 0x90), 0x80, 0x80])
    if kind == 'surrogate_lo':
        return bytes([0xED, rng.randrange(0xA0, 0xB0), rng.randrange(0x80, 0xC0)])
    if kind == 'surrogate_hi':
        return bytes([0xED, rng.randrange(0xB0, 0xC0), rng.randrange(0x80, 0xC0)])
    if kind == 'above_max':
        return bytes([0xF4, rng.randrange(0x90, 0xC0), 0x80, 0x80])
    if kind == 'f5_ff':
        return bytes([rng.randrange(0xF5, 0x100)]) + b'\x80\x80\x80'
    if kind == 'stray_continuation':
        return bytes([rng.randrange(0x80, 0xC0)])
    if kind == 'bad_continuation_3':
        return bytes([0xE1, 0x80, rng.choice([0x41, 0xC0, 0x7F, 0xFF])])
    if kind == 'bad_continuation_4':
        return bytes([0xF1, 0x80, 0x80, rng.choice([0x41, 0xC0, 0x7F, 0xFF])])
    raise ValueError(kind)


_TRUNC = [b'\xc2', b'\xe1', b'\xe1\x80', b'\xf1', b'\xf1\x80', b'\xf1\x80\x80',
          b'\xe0\xa0', b'\xed\x9f', b'\xf0\x90', b'\xf4\x8f\xbf']


def _payload(rng, want):
    """-> bytes; want in valid|invalid|incomplete (by construction)."""
    pre = S.rand_text(rng, rng.choice([0, 1, 3, 20, 200, 200, 2500,
                                       30000])).encode('utf-8')
    post = S.rand_text(rng, rng.choice([0, 1, 10])).encode('utf-8')
    if want == 'valid':
        return pre + post
    if want == 'incomplete':
        return pre + rng.choice(_TRUNC)
    kind = rng.choice(DEFECTS)
    if kind == 'truncated_end':
        return pre + rng.choice(_TRUNC)
    if kind == 'truncated_then_ascii':
        return pre + rng.choice(_TRUNC) + b'A' + post
    return pre + _defect(rng, kind) + post


def make_case(family, i, rng, tier):
    if family == 'sweep':
        j = i % NSWEEP
        split = i // NSWEEP if tier != 'quick' else (i * 7) % 3
        ctx = CONTEXTS[j // (256 * len(SUFFIXES))]
        b = (j // len(SUFFIXES)) % 256
        suf = SUFFIXES[j % len(SUFFIXES)]
        payload = ctx + bytes([b]) + suf
        case = {'payload': payload.hex(), 'as': 'text', 'frag_cuts': [],
                'seg': 'one'}
        if split == 1:
            case['frag_cuts'] = [len(ctx)]            # fragment before byte
        elif split == 2:
            case['seg'] = 'bytes'                       # one byte per read
        return case
    want = rng.choice(['valid', 'invalid', 'invalid', 'incomplete'])
    payload = _payload(rng, want)
    longest = family == 'seeded' and rng.random() < 0.06
    if longest:
        # a close reason of (nearly) the greatest length a Close can carry
        L = rng.choice([121, 122, 123, 123])
        payload = {'valid': b'r' * (L - 3) + u'\u20ac'.encode('utf-8'),
                   'invalid': b'r' * (L - 1) + b'\xff',
                   'incomplete': b'r' * (L - 2) + b'\xe2\x82'}[want]
    n = len(payload)
    case = {'payload': payload.hex()}
    if family == 'seeded' and rng.random() < 0.3:
        # a valid text message and a Ping directly in front of it, in the
        # same reads: delivered whatever the verdict on the payload is
        case['before'] = rng.choice([True, True, 'binary', 'binary_frag',
                                     'text_frag'])
    as_close = longest or (family == 'seeded' and n <= 123 and
                           rng.random() < 0.2)
    case['as'] = 'close' if as_close else 'text'
    nfr = 1 if as_close else rng.choice([1, 1, 2, 3, 4])
    case['frag_cuts'] = sorted(rng.randrange(0, n + 1)
                               for _ in range(nfr - 1)) if n else []
    case['ping_between'] = (not as_close) and nfr > 1 and rng.random() < 0.4
    case['compressed'] = family == 'seeded' and not as_close and \
        rng.random() < 0.15
    # permessage-deflate offered by the client and declined by the server:
    # an ordinary uncompressed connection, fail-fast included
    case['offer_declined'] = not case['compressed'] and rng.random() < 0.15
    case.update(ST.seg_fields(rng))
    case['gaps'] = [rng.choice([0, 0, 1000, 100000]) for _ in range(3)]
    if family == 'stall':
        case['stall'] = True
        case['compressed'] = False
        case['offer_declined'] = rng.random() < 0.3
        case['seg'] = rng.choice(['one', 'cuts'])
        case['rest'] = rng.choice(['late', 'never'])
        if rng.random() < 0.4:
            # complete messages of either kind in front of it
            case['before'] = rng.choice([True, 'binary', 'binary_frag',
                                         'text_frag'])
        if rng.random() < 0.4:
            # the offending byte does not come alone: a truncated sequence,
            # a read boundary, then a run of ASCII of which the first byte
            # is the offending one - the rest of the run rides along in the
            # same read (the message still does not end)
            k = rng.choice([2, 16, 31, 32, 33, 64, 200, 1000, 5000])
            pre = S.rand_text(rng, rng.choice([0, 1, 20, 200])).encode('utf-8')
            payload = pre + rng.choice(_TRUNC) + \
                rng.choice([b'A', b' ', b'{', b'\x00', b'\x7f']) * k + \
                S.rand_text(rng, 3).encode('utf-8')
            case['payload'] = payload.hex()
            n = len(payload)
            case['frag_cuts'] = sorted(rng.randrange(0, n + 1)
                                       for _ in range(rng.choice([0, 0, 1, 2])))
            case['as'] = 'text'
            case['ride'] = rng.choice([1, 15, 30, 31, 32, 63, k - 1, k - 1])
            case['cut_before_bad'] = rng.random() < 0.8
    return case


BEFORE = u'BEFORE \u20ac the payload under test'


def build(case):
    payload = bytes.fromhex(case['payload'])
    enc = ST.Encoded()
    extra = []
    ws = None
    compressed = bool(case.get('compressed'))
    if compressed:
        extra = [b'Sec-WebSocket-Extensions: permessage-deflate']
        ws = {'compress': True}
    elif case.get('offer_declined'):
        ws = {'compress': True}
    payload_offsets = []       # wire offset (in enc.stream) of payload byte k
    if case.get('before'):
        # (the message in front is a text, a binary, or a fragmented one:
        # whatever the parser remembered of it is gone when it is complete)
        bf = case['before']
        if bf == 'binary':
            ST.emit(enc, 2, b'\x00binary in front\xff')
        elif bf == 'binary_frag':
            ST.emit(enc, 2, b'\x00binary in', fin=0)
            ST.emit(enc, 0, b' front\xff')
        elif bf == 'text_frag':
            ST.emit(enc, 1, BEFORE.encode('utf-8')[:5], fin=0)
            ST.emit(enc, 0, BEFORE.encode('utf-8')[5:])
        else:
            ST.emit(enc, 1, BEFORE.encode('utf-8'))
        ST.emit(enc, 9, b'before')
    if case.get('as') == 'close':
        ST.emit(enc, 8, b'\x03\xe8' + payload)
        start = enc.frame_ends[-1] - len(payload)
        payload_offsets = list(range(start, start + len(payload)))
    else:
        wire = payload
        if compressed:
            wire = peer.DeflatePeer().compress(payload)
        cuts = [min(max(c, 0), len(wire)) for c in case.get('frag_cuts') or []]
        bounds = [0] + sorted(cuts) + [len(wire)]
        nfr = len(bounds) - 1
        for k in range(nfr):
            part = wire[bounds[k]:bounds[k + 1]]
            ST.emit(enc, 1 if k == 0 else 0, part, fin=1 if k == nfr - 1 else 0,
                    rsv1=1 if (compressed and k == 0) else 0)
            start = enc.frame_ends[-1] - len(part)
            payload_offsets.extend(range(start, start + len(part)))
            if k < nfr - 1 and case.get('ping_between'):
                ST.emit(enc, 9, b'mid')
    # a valid marker message after it: must be delivered iff text was valid
    ST.emit(enc, 2, b'AFTER')
    tail = [S.eof(after=1000000)]
    sc = ST.stream_scenario(case, enc, tail, extra_headers=extra, ws=ws,
                            connect={'ping_rate': 0, 'poll': 5})
    return sc, enc, payload_offsets


def execute(case):
    res = Result()
    payload = bytes.fromhex(case['payload'])
    verdict, idx = peer.utf8_scan(payload)
    try:
        text = payload.decode('utf-8')
        py_valid = True
    except UnicodeDecodeError:
        text = None
        py_valid = False
    if py_valid != (verdict == 'valid'):
        raise RuntimeError('UTF-8 references disagree on %r' % payload)
    sc, enc, offs = build(case)
    step = sc['conns'][0]['server'][1]
    rlen = sc['_rlen']
    t_expect = None
    if case.get('stall') and verdict == 'invalid' and offs:
        # deliver up to and including the offending byte, then go silent
        last = idx
        if case.get('ride'):
            # more bytes of the same fragment in the read that carries the
            # offending byte
            fe = min([c for c in case.get('frag_cuts') or [] if c > idx] +
                     [len(payload)])
            last = max(idx, min(idx + int(case['ride']), fe - 1))
            res.stats['probe:offending_byte_not_last_in_read'] += last > idx
        cut = rlen + offs[last] + 1
        extra_cuts = [cut]
        if case.get('cut_before_bad'):
            extra_cuts.append(rlen + offs[idx])
        step['cuts'] = sorted(set([c for c in step['cuts'] if c < cut] +
                                  extra_cuts))
        ng = len(step['cuts'])
        gaps = [0] * ng
        gaps[-1] = 1000 * 1000000
        step['gaps'] = gaps
        if case.get('rest') == 'never':
            # drop everything after the offending byte, then a late EOF
            tm = bytes.fromhex(step['tmpl'])
            cut_t = cut - ST.REPLY_LEN_DELTA
            step['tmpl'] = tm[:cut_t].hex()
            step['cuts'] = [c for c in step['cuts'] if c < cut]
            step['gaps'] = [0]
            sc['conns'][0]['server'][2] = S.eof(after=2000 * 1000000)
        t_expect = 0
    tr = netsim.run(sc)
    res.stats.update(tr.world.stats)
    res.sim_us = tr.world.now
    res.digest = tr.digest()
    names = tr.names()
    as_close = case.get('as') == 'close'
    texts = [e for e in tr.events if e.name == 'text']
    if case.get('before'):
        res.stats['probe:valid_message_in_front'] += 1
        first = [e for e in texts if e.snap[2] == BEFORE]
        front = 'text'
        if str(case['before']).startswith('binary'):
            front = 'binary'
            first = [e for e in tr.events if e.name == 'binary' and
                     e.snap[2] == b'\x00binary in front\xff']
        if len(first) != 1 or 'ping' not in names or \
                names.index(front) > names.index('ping'):
            res.bad('C05/%s/message_in_front_lost' % (
                'close' if as_close else 'text'),
                'the valid Text and the Ping in front of the payload under '
                'test must be delivered: events %s' % names)
        texts = [e for e in texts if e not in first[:1]]
    if len(payload) >= 121 and as_close:
        res.stats['probe:close_reason_of_greatest_length'] += 1
    closings = [e for e in tr.events if e.name == 'closing']
    perr = [e for e in tr.events if e.name == 'protocol_error']
    disc = [e for e in tr.events if e.name == 'disconnected']
    tag = 'close' if as_close else ('ctext' if case.get('compressed')
                                    else 'text')
    res.stats['probe:' + verdict] += 1
    if as_close:
        res.stats['probe:as_close_reason'] += 1
    if case.get('compressed'):
        res.stats['probe:compressed'] += 1
        if len(payload) > 4096:
            res.stats['probe:compressed_large'] += 1
    if case.get('ping_between'):
        res.stats['probe:ping_between_fragments'] += 1
    for c in case.get('frag_cuts') or []:
        if 0 < c < len(payload) and (payload[c] & 0xC0) == 0x80 \
                and not case.get('compressed'):
            res.stats['probe:split_inside_codepoint'] += 1
            break
    if verdict == 'valid':
        if as_close:
            if len(closings) != 1 or closings[0].snap[2] != text or perr:
                res.bad('C05/%s/valid_not_delivered' % tag,
                        'valid reason %r: events %s' % (payload[:40], names))
        else:
            if len(texts) != 1 or texts[0].snap[2] != text or perr:
                res.bad('C05/%s/valid_not_delivered' % tag,
                        'valid text %r: events %s, got %r' % (
                            payload[:40], names,
                            texts[0].snap[2][:20] if texts else None))
            if names.count('binary') < (2 if str(case.get(
                    'before')).startswith('binary') else 1):
                res.bad('C05/%s/message_after_valid_text_lost' % tag,
                        'events %s' % names)
    else:
        if texts or closings:
            res.bad('C05/%s/invalid_delivered' % tag,
                    '%s payload %r (first bad byte %s) was delivered: %r' % (
                        verdict, payload[:40], idx,
                        (texts or closings)[0].snap))
        if len(perr) != 1:
            res.bad('C05/%s/no_protocol_error' % tag,
                    '%s payload %r: events %s' % (verdict, payload[:40], names))
        if not disc or disc[-1].snap[1]:
            res.bad('C05/%s/not_nongraceful' % tag, 'events %s' % names)
        if names.count('binary') > (1 if str(case.get(
                'before')).startswith('binary') else 0):
            res.bad('C05/%s/message_after_invalid_delivered' % tag,
                    'events %s' % names)
        if t_expect is not None:
            res.stats['probe:stall_failfast_checked'] += 1
            if not perr or perr[0].t > 1000000:
                res.bad('C05/text/not_fail_fast',
                        'offending byte %d of %r arrived at t=0; '
                        'ProtocolError at t=%s us' % (
                            idx, payload[:40], perr[0].t if perr else None))
    for k, m in oracle.trace_sanity(tr):
        res.xobs.append('C07/' + k)
        if k in ('hang', 'escaped'):
            res.bad('C05/%s/%s' % (tag, k), m)
    res.nontrivial = 'ready' in names
    res.sig = '%s|%s|%s|%s|%d' % (case['payload'][:80], case.get('frag_cuts'),
                                  tag, case.get('seg'),
                                  bool(case.get('ping_between')))
    res.sample = {'payload': payload[:40].hex(), 'verdict': verdict,
                  'first_bad': idx, 'as': case.get('as'),
                  'frag_cuts': case.get('frag_cuts'),
                  'stall': bool(case.get('stall')), 'events': names}
    return res
