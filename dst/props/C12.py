"""C12 - close() is atomic with respect to other threads' sends and closes."""
import copy

from .. import oracle, peer, scen as S
from ..runner import Result
from . import _threads as T

ID = 'C12'
LEVEL = 'exploration'
RULE = ('ThreadSim: real threads released one at a time; yield points at '
        'every traced source line of lomond/*.py, at lock acquire/release, in '
        'the middle of the split socket write and in poll.  Base scenarios: '
        'close() against send_text / send_binary / send_ping / close() on 2-3 '
        'threads, and against the event-loop thread echoing a server Close, '
        'answering a server Ping or sending an automatic Ping.  sweep1: every '
        'schedule with ONE pre-emption (every step of the non-preemptive '
        'schedule x every other thread or a clock advance) for every base; '
        'sweep2: two pre-emptions (complete for the small bases in thorough, '
        'seeded sample otherwise); random: seeded thread programs under '
        'random-walk and PCT schedulers.  Oracle on the decoded wire.  '
        'Non-trivial = a Close frame was written while another call was in '
        'flight; distinct = distinct (base, switch sites) signatures')
RULE += (' '
         'Further families: `stall` (a sender blocked 1-40 s inside sendall '
         'while others close) and `held_generator` (no second thread but a '
         'second finaliser: the generator of an earlier abandoned connection '
         "is closed in the middle of the closing handshake; C08's scenario "
         'and oracle).')
RULE += (' `race`: race-directed sweep - recording runs log every read / '
         'write of a field of the connection state with thread and yield '
         'point; the points where two threads touch one field (before / '
         'after a write, after a read) are candidate pre-emption *sites* '
         '(thread, file:line, occurrence), and every set of up to three '
         'site rules x target thread x initial order is run (complete for '
         'the bases in RACE_FULL3 at the quick tier, capped sample of pairs '
         'for the rest; thorough: triples for every base, capped at 60 000 '
         'per base).')
SHRINK_LISTS = [('schedule', 'points'), ('schedule', 'rules')]
EXPECTED_PROBES = ['old_generator_finalised_while_closing', 'stalled_writes', 'close_vs_send', 'close_vs_close', 'close_vs_loop_echo',
                   'close_vs_auto_pong', 'close_vs_auto_ping',
                   'loser_got_websocket_error',
                   'lock_contended', 'split_writes']
REAL = ['all of /repo/lomond; real threading.Thread objects, one running at '
        'a time']
STUBS = ['threading.Lock (SimLock at lomond.session.threading)', 'GIL '
         'scheduling (replaced by the seeded scheduler)', 'kernel socket '
         '(split sendall)', 'select.poll', 'time.time', 'peer']

_TXT = {'op': 'send_text', 'text': 'T1-0-' + 'd' * 40}
_BIN = {'op': 'send_binary', 'hex': ('T1-1-' + 'e' * 130).encode().hex()}
_PNG = {'op': 'send_ping', 'hex': b'T1-2-ping'.hex()}
_CL = {'op': 'close', 'code': 1000, 'reason': 'bye'}
_CL2 = {'op': 'close', 'code': 1001, 'reason': 'other'}
_CLN = {'op': 'close', 'code': None, 'reason': ''}
_HUGE = {'op': 'send_binary', 'fill': [b'T1-8-'.hex(), 1300000, 0x48]}
_BIG = {'op': 'send_binary', 'hex': ('T1-9-' + 'B' * 70000).encode().hex()}


def _t(tid, op):
    op = copy.deepcopy(op)
    if 'text' in op:
        op['text'] = op['text'].replace('T1-', 'T%d-' % tid)
    if 'fill' in op:
        op['fill'][0] = bytes.fromhex(op['fill'][0]).replace(
            b'T1-', b'T%d-' % tid).hex()
    if 'hex' in op and op['op'] != 'close':
        op['hex'] = bytes.fromhex(op['hex']).replace(
            b'T1-', b'T%d-' % tid).hex()
    return op


BASES = [
    {'name': 'close_vs_text', 'threads': [[_CL], [_t(2, _TXT)]]},
    {'name': 'close_vs_binary_text', 'threads': [[_CL], [_t(2, _BIN),
                                                         _t(2, _TXT)]]},
    {'name': 'close_vs_close', 'threads': [[_CL], [_CL2]]},
    {'name': 'close_vs_ping', 'threads': [[_CL], [_t(2, _PNG)]]},
    {'name': 'text_close_vs_text', 'threads': [[_t(1, _TXT), _CL],
                                               [_t(2, _TXT)]]},
    {'name': 'close_vs_loop_echo', 'threads': [[_CL]], 'loop': ['close']},
    {'name': 'close_vs_auto_pong', 'threads': [[_CL]], 'loop': ['ping']},
    {'name': 'close_vs_auto_ping', 'threads': [[_CL]], 'ping_rate': 0.5,
     'poll': 0.5},
    {'name': 'three_threads', 'threads': [[_CL], [_t(2, _TXT)], [_CL2]]},
    {'name': 'text_vs_loop_echo', 'threads': [[_t(1, _TXT), _t(1, _BIN)]],
     'loop': ['close']},
    {'name': 'close_text_vs_loop_ping_close', 'threads': [[_CL], [_t(2, _TXT)]],
     'loop': ['ping', 'close']},
    {'name': 'empty_close_vs_text', 'threads': [[_CLN], [_t(2, _TXT)]]},
    {'name': 'empty_close_vs_close', 'threads': [[_CLN], [_CL2]]},
    {'name': 'loop_echo_empty_close_vs_text', 'threads': [[_t(1, _TXT),
                                                           _t(1, _BIN)]],
     'loop': ['close_empty']},
    {'name': 'close_vs_big_frame', 'threads': [[_CL], [_t(2, _BIG)]]},
    {'name': 'loop_echo_vs_big_frame', 'threads': [[_t(1, _BIG)]],
     'loop': ['close']},
    {'name': 'compressed_close_vs_text', 'threads': [[_CL], [_t(2, _TXT),
                                                             _t(2, _BIN)]],
     'compress': True},
    # a send / a second close() by the thread that closed, after its close()
    # returned, while the event loop completes the handshake: whatever the
    # interleaving did to the flags, the connection must stay closed to them
    {'name': 'close_text_vs_loop_echo', 'threads': [[_CL, _t(1, _TXT)]],
     'loop': ['close']},
    {'name': 'close_close_vs_loop_echo', 'threads': [[_CL, _CL2]],
     'loop': ['close']},
    # beyond any plausible chunking / fragmentation threshold
    {'name': 'close_vs_huge_frame', 'threads': [[_CL], [_t(2, _HUGE)]]},
    {'name': 'loop_echo_vs_huge_frame', 'threads': [[_t(1, _HUGE)]],
     'loop': ['close']},
    {'name': 'close_vs_text_text_loop_echo', 'threads': [[_CL], [_t(2, _TXT),
                                                                _t(2, _BIN)]],
     'loop': ['close']},
]
SLOT1 = 4000
FSLOT = 1200
_INFO = {}


def _info(b):
    if b not in _INFO:
        _INFO[b] = T.default_steps(BASES[b])
    return _INFO[b]


# race-directed sweep (family `race`): rule sets over the sites where two
# threads touch the same field of the connection state (see _threads.py)
RACE_FULL3 = ['close_text_vs_loop_echo', 'close_close_vs_loop_echo']
_RACE = {}


def _race(b, tier):
    key = (b, tier)
    if key not in _RACE:
        base = BASES[b]
        cands = T.race_candidates(base, tags=('state',))
        if tier == 'quick':
            depth = 3 if base['name'] in RACE_FULL3 else 2
            cap = 40000 if depth == 3 else 1200
        else:
            depth, cap = 3, 60000
        _RACE[key] = (cands, T.race_schedules(base, cands, depth, cap))
    return _RACE[key]


FULL2 = ['close_vs_close', 'close_vs_auto_ping', 'close_vs_text']      # bases whose two-pre-emption sweep is complete (thorough)


def _full2_size(b):
    n, nt = _info(b)
    return n * (n + 40) * (nt + 1) ** 2


def _full2_bases():
    return [i for i, b in enumerate(BASES) if b['name'] in FULL2]


def plan(tier):
    q = tier == 'quick'
    if not q:
        return [('sweep1', len(BASES) * SLOT1),
                ('sweep1b', len(BASES) * SLOT1),
                ('sweep2_full', sum(_full2_size(b) for b in _full2_bases())),
                ('base_random', len(BASES) * 6000),
                ('stall', 40000),
                ('freeze', len(BASES) * FSLOT),
                ('held_generator', 6000),
                ('race', sum(len(_race(b, tier)[1])
                             for b in range(len(BASES)))),
                ('sweep2', 60000),
                ('random', 120000)]
    return [('sweep1', len(BASES) * SLOT1),
            ('sweep1b', len(BASES) * SLOT1),
            ('base_random', len(BASES) * 250),
            ('stall', 1500),
            ('freeze', len(BASES) * FSLOT),
            ('held_generator', 400),
            ('race', sum(len(_race(b, tier)[1]) for b in range(len(BASES)))),
            ('sweep2', 3000 if q else 150000),
            ('random', 2500 if q else 120000)]


def _held_case(i, rng, tier):
    """No second thread, but a second *finaliser*: the generator of an
    earlier, abandoned connection of the same object is closed (as the
    garbage collector of any thread may do) in the middle of the closing
    handshake of the current one.  Scenario and oracle are C08's."""
    from . import C08
    if rng.random() < 0.25:
        # a third single-threaded writer of Close frames: the library fails
        # the connection for a protocol violation after the application's
        # close() is on the wire (scenario and wire oracle of C04)
        from . import C04
        for _ in range(400):
            c = C04.make_case('seeded', rng.randrange(100000), rng, tier)
            if c is not None and not c.get('stop_after'):
                break
        c['app_close'] = True
        return {'name': 'violation_after_close', 'held': c, 'via': 'C04'}
    if rng.random() < 0.25:
        # no second thread and no second finaliser, but a close() whose
        # write raises after the kernel took the frame: the Close is on the
        # wire, the caller saw an error - whatever is sent or closed
        # afterwards must still be refused (scenario and oracle of C08)
        for _ in range(400):
            c = C08.make_case('seeded', rng.randrange(100000), rng, tier)
            if c['kind'] == 'client_first' and not c.get('prelude') and \
                    c.get('app_close'):
                break
        c['close_write_fails'] = rng.choice(['timeout', 'exc', 'eintr',
                                             'enobufs'])
        c['close_write_partial'] = rng.choice([3, 1000000, 1000000])
        c['send_everywhere'] = True
        return {'name': 'failed_close_write', 'held': c}
    if rng.random() < 0.4:
        # the other single-threaded history with two writers of the closing
        # flag: close() between Connected and Ready, then the handshake reply
        # (with or without an accepted extension) is processed
        for _ in range(400):
            c = C08.make_case('seeded', rng.randrange(100000), rng, tier)
            if c['kind'] == 'client_first' and not c.get('prelude') and \
                    not c.get('close_write_fails') and c.get('app_close'):
                break
        c['app_close']['at'] = {'name': 'connected'}
        c['compress'] = rng.random() < 0.7
        c['send_everywhere'] = True
        return {'name': 'close_before_ready', 'held': c}
    for _ in range(200):
        c = C08.make_case('seeded', rng.randrange(100000), rng, tier)
        c.pop('close_write_fails', None)
        c['prelude'] = 'abandoned_held'
        c['release_at'] = rng.choice(['ready', 'text', 'binary', 'ping',
                                      'poll', 'closing', 'closed'])
        c['send_everywhere'] = True
        return {'name': 'held_generator', 'held': c}


def _execute_held(case):
    from . import C08
    if case.get('via') == 'C04':
        from . import C04
        r = C04.execute(case['held'])
        r.stats['probe:' + case['name']] += 1
        r.violations = [('C12/%s/' % case['name'] + k.split('/', 1)[1], m)
                        for k, m in r.violations
                        if k.split('/')[-1] in ('wire_after_violation',
                                                'frame_after_close')]
        return r
    r = C08.execute(case['held'])
    r.stats['probe:' + case['name']] += 1
    r.violations = [('C12/%s/' % case['name'] + k.split('/', 1)[1], m)
                    for k, m in r.violations
                    if k.split('/')[-1] in ('two_closes', 'data_after_close',
                                            'send_accepted_after_close',
                                            'send_accepted_after_failed_close',
                                            'two_closes_after_failed_close')]
    r.stats['probe:old_generator_finalised_while_closing'] += \
        r.stats.get('probe:old_generator_released_mid_handshake', 0)
    return r


def make_case(family, i, rng, tier):
    if family == 'held_generator':
        return _held_case(i, rng, tier)
    if family in ('sweep1', 'sweep1b'):
        b = i // SLOT1
        n, nt = _info(b)
        slot = i % SLOT1
        step, who = slot // (nt + 1), slot % (nt + 1)
        tid = who if who < nt else T.threadsim.CLOCK
        case = copy.deepcopy(BASES[b])
        if family == 'sweep1':
            if step < 1 or step > n:
                return None
            case['schedule'] = {'kind': 'preempt', 'points': [[step, tid]]}
        else:
            # same sweep over the other default order: the sender threads
            # run first (the event loop is held back at the spawn point), so
            # that one pre-emption can hand a half-finished send to an event
            # loop that still has unread traffic
            if step < 2 or step > n + 60:
                return None
            case['schedule'] = {'kind': 'preempt',
                                'points': [[1, 1], [step, tid]]}
        return case
    if family == 'race':
        for b in range(len(BASES)):
            cands, scheds = _race(b, tier)
            if i < len(scheds):
                break
            i -= len(scheds)
        case = copy.deepcopy(BASES[b])
        case['schedule'] = T.race_schedule(cands, scheds[i])
        return case
    if family == 'base_random':
        # seeded random-walk / PCT schedules over the hand-written bases
        # (their interesting windows need two or more pre-emptions)
        case = copy.deepcopy(BASES[i % len(BASES)])
        if rng.random() < 0.6:
            case['schedule'] = {'kind': 'random', 'seed': rng.getrandbits(32),
                                'stay': rng.choice([0.5, 0.7, 0.85, 0.95])}
        else:
            case['schedule'] = {'kind': 'pct', 'seed': rng.getrandbits(32),
                                'd': rng.choice([2, 3, 4]),
                                'horizon': rng.choice([150, 400, 800])}
        return case
    if family == 'freeze':
        # a sender thread is taken off the CPU for 0.6 / 2.5 simulated
        # seconds at one step of its call (every step is tried): timers of
        # the event loop fire, the peer's traffic is handled, other threads
        # run to completion meanwhile
        b = i // FSLOT
        n, nt = _info(b)
        slot = i % FSLOT
        step, who = slot // max(1, nt - 1) + 2, slot % max(1, nt - 1) + 1
        if step > n or nt < 2:
            return None
        if tier == 'quick' and step % 3:
            return None
        case = copy.deepcopy(BASES[b])
        case['schedule'] = {'kind': 'preempt', 'points': [[1, who]],
                            'freeze': [[step, who,
                                        [600001, 2500001][step % 2]]]}
        case['max_steps'] = 120000
        return case
    if family == 'stall':
        # a sender's sendall blocks half-way (the peer stopped reading) for
        # seconds of simulated time while other threads / the event loop
        # want to close
        names = ['close_vs_text', 'close_vs_big_frame', 'three_threads',
                 'close_text_vs_loop_ping_close', 'text_vs_loop_echo',
                 'loop_echo_vs_big_frame', 'close_vs_binary_text',
                 'text_close_vs_text']
        nm = names[i % len(names)]
        case = copy.deepcopy([b for b in BASES if b['name'] == nm][0])
        senders = [t + 1 for t, prog in enumerate(case['threads'])
                   if prog[0]['op'] != 'close']
        case['stall'] = {'tid': rng.choice(senders), 'k': 0,
                         'us': rng.choice([900001, 2500001, 5500001,
                                           12000001, 40000001])}
        case['eof_after'] = 90000000
        case['max_steps'] = 400000
        case['name'] = nm + '+stall'
        if rng.random() < 0.5:
            # let the stalled sender go first
            case['schedule'] = {'kind': 'preempt',
                                'points': [[1, case['stall']['tid']]]}
        else:
            case['schedule'] = {'kind': 'random', 'seed': rng.getrandbits(32),
                                'stay': rng.choice([0.7, 0.9, 0.97])}
        return case
    if family == 'sweep2_full':
        for b in _full2_bases():
            size = _full2_size(b)
            if i < size:
                break
            i -= size
        n, nt = _info(b)
        k = nt + 1
        t2 = i % k
        i //= k
        t1 = i % k
        i //= k
        s2 = i % (n + 40) + 1
        s1 = i // (n + 40) + 1
        if s2 <= s1:
            return None
        ids = list(range(nt)) + [T.threadsim.CLOCK]
        case = copy.deepcopy(BASES[b])
        case['schedule'] = {'kind': 'preempt',
                            'points': [[s1, ids[t1]], [s2, ids[t2]]]}
        return case
    if family == 'sweep2':
        b = rng.randrange(len(BASES)) if tier == 'quick' else i % len(BASES)
        n, nt = _info(b)
        s1 = rng.randrange(1, n + 1)
        s2 = rng.randrange(s1 + 1, n + 40)
        ids = list(range(nt)) + [T.threadsim.CLOCK]
        case = copy.deepcopy(BASES[b])
        case['schedule'] = {'kind': 'preempt',
                            'points': [[s1, rng.choice(ids)],
                                       [s2, rng.choice(ids)]]}
        return case
    # random programs
    nthreads = rng.choice([2, 2, 3])
    threads = []
    closer = rng.randrange(nthreads)
    for t in range(nthreads):
        prog = [T.send_op(rng, t + 1, k) for k in
                range(rng.choice([0, 1, 1, 2]))]
        if t == closer or rng.random() < 0.25:
            prog.insert(rng.randrange(len(prog) + 1),
                        {'op': 'close', 'code': rng.choice([1000, 1001, 3000,
                                                            None]),
                         'reason': 'r%d' % t})
        if not prog:
            prog = [T.send_op(rng, t + 1, 0)]
        threads.append(prog)
    case = {'name': 'random', 'threads': threads,
            'loop': rng.choice([[], [], ['ping'], ['close'], ['ping', 'close'],
                                ['text'], ['close_empty']]),
            'compress': rng.random() < 0.3, 'cnct': rng.random() < 0.5,
            'ping_rate': rng.choice([0, 0, 0.5]), 'poll': rng.choice([1, 0.5]),
            'app_echo': rng.random() < 0.3}
    if rng.random() < 0.6:
        case['schedule'] = {'kind': 'random', 'seed': rng.getrandbits(32),
                            'stay': rng.choice([0.5, 0.7, 0.9, 0.98])}
    else:
        case['schedule'] = {'kind': 'pct', 'seed': rng.getrandbits(32),
                            'd': rng.choice([1, 2, 3]),
                            'horizon': rng.choice([100, 300, 600])}
    return case


def execute(case):
    if 'held' in case:
        return _execute_held(case)
    res = Result()
    sc, tr, sched = T.run(case)
    w = tr.world
    res.stats.update(w.stats)
    for k, v in sched.stats.items():
        res.stats['probe:' + k] += v
    res.sim_us = w.now
    res.digest = T.digest(tr, sched)
    if sched.error is not None:
        raise RuntimeError('ThreadSim harness error: %r' % (sched.error,))
    base = case.get('name', 'random')
    if tr.hang:
        res.bad('C12/%s/hang' % base, tr.hang)
    if tr.escaped:
        res.bad('C12/%s/exception_in_event_loop' % base, '%s %s' % tr.escaped)
    st = w.socks[-1]
    wire = oracle.Wire(st)
    frames = wire.frames
    if wire.incomplete:
        res.xobs.append('C11/torn_frame')
    closes = [i for i, f in enumerate(frames) if f.opcode == peer.OP_CLOSE]
    if len(closes) > 1:
        res.bad('C12/%s/two_close_frames' % base,
                '%d Close frames on the wire: %r | schedule %s' % (
                    len(closes), [f.payload[:12] for f in frames
                                  if f.opcode == 8], T.site_signature(sched)))
    if closes:
        after = frames[closes[0] + 1:]
        data_after = [f for f in after if f.opcode in (0, 1, 2)]
        if data_after:
            res.bad('C12/%s/data_after_close' % base,
                    'data frame %r written after the Close | schedule %s' % (
                        data_after[0].payload[:16], T.site_signature(sched)))
        if any(f.opcode in (9, 10) for f in after):
            res.stats['probe:control_frame_after_close'] += 1
    # every racing call: on the wire (before the Close) XOR WebSocketError
    dp = peer.DeflatePeer(15, 15, False, bool(case.get('cnct')))
    seen = []
    inflate_failed = False
    # (a tree that writes a message in fragments: what was accepted is
    # compared with the joined message; fragmenting as such is C03's business)
    from .C11 import _reassemble
    for f in _reassemble(frames)[0]:
        p = f.payload
        if f.rsv1:
            try:
                p = dp.decompress(p)
            except Exception:
                res.xobs.append('C11/cannot_inflate')
                inflate_failed = True
                p = b'?'
        seen.append((f.opcode, p))
    for c in tr.tcalls:
        op = c.op
        opcode, ref = T.ref_payload(op)
        if op['op'] == 'close':
            if c.outcome == 'raised':
                res.bad('C12/%s/close_raised_%s' % (base, c.exc),
                        'close() raised in thread %d' % c.tid)
            continue
        # payloads may repeat: compare counts of accepted calls and frames
        n_wire = seen.count((opcode, ref))
        n_ok = sum(1 for c2 in tr.tcalls if c2.outcome == 'ok' and
                   c2.op['op'] != 'close' and T.ref_payload(c2.op) ==
                   (opcode, ref))
        on_wire = n_wire > n_ok if c.outcome == 'raised' else n_wire >= n_ok \
            and n_wire > 0
        if c.outcome == 'ok' and n_wire < n_ok and not inflate_failed \
                and not case.get('compress'):
            res.bad('C12/%s/accepted_but_not_written' % base,
                    '%s of thread %d returned normally, frame not on the '
                    'wire | %s' % (op['op'], c.tid, T.site_signature(sched)))
        if c.outcome == 'raised':
            if not c.exc_is_wse:
                res.bad('C12/%s/loser_raised_%s' % (base, c.exc),
                        '%s of thread %d' % (op['op'], c.tid))
            else:
                res.stats['probe:loser_got_websocket_error'] += 1
            if on_wire:
                res.bad('C12/%s/raised_but_written' % base,
                        '%s of thread %d raised %s yet its frame is on the '
                        'wire' % (op['op'], c.tid, c.exc))
    nclose_calls = sum(1 for c in tr.tcalls if c.op['op'] == 'close')
    nsend_calls = len(tr.tcalls) - nclose_calls
    if nclose_calls and nsend_calls:
        res.stats['probe:close_vs_send'] += 1
    if nclose_calls > 1:
        res.stats['probe:close_vs_close'] += 1
    loop = case.get('loop') or []
    if nclose_calls and 'close' in loop:
        res.stats['probe:close_vs_loop_echo'] += 1
    if nclose_calls and 'ping' in loop:
        res.stats['probe:close_vs_auto_pong'] += 1
    if nclose_calls and case.get('ping_rate'):
        res.stats['probe:close_vs_auto_ping'] += 1
    res.nontrivial = bool(closes) and len(tr.tcalls) >= 1
    res.sig = '%s|%s|%s' % (base, T.site_signature(sched),
                            [f.opcode for f in frames])
    res.sample = {'base': base, 'threads': case['threads'],
                  'loop': case.get('loop'), 'schedule': case.get('schedule'),
                  'switch_sites': T.site_signature(sched),
                  'wire': [f.summary()['op'] for f in frames],
                  'calls': [(c.tid, c.op['op'], c.outcome, c.exc)
                            for c in tr.tcalls]}
    return res


def evidence_extra(tier, agg):
    return {'schedules': {'sweep1': 'every single pre-emption point of every '
                                    'base (complete)',
                          'sweep2_full': 'thorough: every pair of pre-emption '
                                         'points for the bases %s'
                                         % (FULL2,),
                          'sweep2': 'pairs of pre-emption points (sampled)',
                          'race': 'sets of <= 3 site rules over the racing '
                                  'sites of each base: %s' % (
                                      {BASES[b]['name']: [len(_race(b, tier)[0]),
                                                          len(_race(b, tier)[1])]
                                       for b in range(len(BASES))},),
                          'random': 'random-walk and PCT schedulers'},
            'exhaustive_at_bound': {b['name']: _info(i)[0] * (_info(i)[1] + 1)
                                    for i, b in enumerate(BASES)}}
