"""C15 - keep-alive, time-outs and polling fire when, and only when, they
should.  All times are virtual; processing takes zero time, so the interval
rules are exact up to float rounding (eps) plus explicitly injected wake-up
latency."""
import math

from .. import netsim, oracle, peer, scen as S, streams as ST
from ..runner import Result

ID = 'C15'
LEVEL = 'exploration'
RULE = ('seeded (poll, ping_rate, ping_timeout, close_timeout) drawn from '
        'grids incl. 0/None, values below / equal / multiple / '
        'incommensurate with poll and inexact binary fractions, x arrival '
        'histories on the virtual clock: Pongs prompt / late / never / only '
        'the first k, data at seeded times, application close() at a seeded '
        'event at or after Ready, close replies prompt / late / never, final '
        'EOF; jitter family: selector wake-ups late by a known injected '
        'amount; realistic epoch (float rounding) in half the runs.  Oracle: '
        'interval rules on virtual timestamps (Poll spacing, auto-Ping '
        'windows and once-per-period, Unresponsive iff > t since last Pong, '
        'forced Disconnected in [c, c+p] after an unanswered Close, every '
        'non-graceful end justified).  Non-trivial = Ready and >= 3 Polls; '
        'distinct = distinct (config, history shape) signatures')
RULE += (' '
         'Also: ping_timeout with ping_rate 0, close() repeated at every '
         'event while closing, auto_pong on/off, byte-trickled frames, a '
         'frame of exactly 65536 bytes arriving alone, wake-up latency '
         'jitter.')
SHRINK_LISTS = [('data',)]
EXPECTED_PROBES = ['both_deadlines_passed_at_one_wakeup', 'unresponsive_seen', 'close_timeout_fired', 'ping_rate_zero',
                   'late_pong', 'close_timeout_disabled', 'ping_lt_poll',
                   'graceful_end', 'jitter', 'data_wakeups', 'ping_windows_checked',
                   'trickled_frame', 'auto_pong_off',
                   'timeout_without_auto_ping',
                   'close_called_again_while_closing',
                   'read_filled_buffer_exactly',
                   'server_closes_first_then_keeps_tcp_open',
                   'unsolicited_pongs', 'server_pings']

EPS = 2e-5      # float rounding at a 1.7e9 epoch (2^-22 s) with margin


def plan(tier):
    return [('seeded', 12000 if tier == 'quick' else 250000),
            ('jitter', 1500 if tier == 'quick' else 60000),
            ('coincide', 1500 if tier == 'quick' else 40000)]


def make_case(family, i, rng, tier):
    p = rng.choice([0.05, 0.1, 0.25, 0.3, 1, 1.1, 2, 5, 5, 60])
    rr = rng.random()
    if rr < 0.15:
        r = 0
    elif rr < 0.3:
        r = p * rng.choice([0.2, 0.5, 0.33])
    elif rr < 0.45:
        r = p
    elif rr < 0.7:
        r = p * rng.choice([2, 3, 6])
    else:
        r = p * rng.choice([1.7, 2.3, 0.7, 3.14159])
    t = rng.choice([None, None, 0])
    if r and rng.random() < 0.6:
        t = rng.choice([r * 0.5, r * 2, r * 2.5, p * 3, p * 10])
    if not r and rng.random() < 0.5:
        # a ping timeout without automatic pings (the application or the
        # server keeps the Pongs coming, or nobody does)
        t = rng.choice([p * 3, p * 10, p * 2.5])
    c = rng.choice([None, 0, p * 0.5, p * 3, 30 if p >= 1 else p * 7,
                    30 if p >= 1 else p * 12])
    horizon = min(max(20 * p, 6 * (r or p), 4 * (t or 0), 3 * (c or 0)), 900)
    case = {'poll': p, 'ping_rate': r, 'ping_timeout': t, 'close_timeout': c,
            'auto_pong': rng.random() < 0.7,
            'epoch': rng.choice([0, 1.7e9]), 'horizon': horizon}
    # pong behaviour of the server
    pm = rng.choice(['prompt', 'prompt', 'late', 'never', 'first_k'])
    pong = None
    if pm == 'prompt':
        # a network round trip is never zero: a zero-delay reactive peer on
        # a frozen clock would be an unphysical feedback loop
        pong = {'delay': rng.choice([50, 1000, int(p * 3e5)])}
    elif pm == 'late':
        pong = {'delay': int(((t or p) * rng.choice([0.9, 1.1, 2.0])) * 1e6)}
    elif pm == 'first_k':
        pong = {'delay': 1000, 'limit': rng.choice([1, 2, 4])}
    case['pong'] = pong
    if t and rng.random() < 0.25:
        # the server keeps sending Pings of its own (answered by the
        # client): they are no Pongs and do not refresh the ping timeout
        case['server_pings'] = {'every': t * rng.choice([0.3, 0.6]),
                                'until': round(horizon, 3)}
    if t and rng.random() < 0.25:
        # heartbeat Pongs the server sends on its own (own payload, not an
        # echo of any Ping): they count as signs of life like any Pong
        every = t * rng.choice([0.4, 0.7])
        case['heartbeat'] = {'every': every,
                             'until': round(horizon * rng.choice([0.3, 0.6,
                                                                  1.0]), 3)}
        case['pong'] = None
    # data arrivals (seconds after Ready)
    nd = rng.choice([0, 0, 1, 3, 10])
    case['data'] = sorted(round(rng.uniform(0, horizon * 0.8), 3)
                          for _ in range(nd))
    if rng.random() < 0.15:
        # a long frame dribbling in byte by byte, faster than the poll
        # interval: every wake-up is a partial read that completes nothing
        case['trickle'] = {'at': round(rng.uniform(0, horizon * 0.2), 3),
                           'every': p * rng.choice([0.5, 0.3, 0.9]),
                           'bytes': rng.choice([30, 60])}
    if rng.random() < 0.15 and not case.get('trickle'):
        # a frame of exactly 65536 bytes arriving while nothing else is
        # buffered: one read fills the receive buffer to the last byte
        case['full_read_at'] = round(rng.uniform(0, horizon * 0.5), 3)
    # handshake delay
    case['reply_delay'] = rng.choice([0, 0, int(p * 1.5e6), 700000])
    # closing
    cm = rng.choice(['none', 'none', 'app_close', 'app_close', 'server_close'])
    case['close_mode'] = cm
    if cm == 'app_close':
        case['close_at'] = rng.choice([{'name': 'ready'},
                                       {'name': 'poll', 'nth': rng.choice([1, 2, 5])},
                                       {'name': 'text', 'nth': 0}])
        case['close_reply'] = rng.choice(['prompt', 'late', 'never', 'never'])
        if rng.random() < 0.3:
            # close() again at every later Poll (and other event)
            case['close_repeat'] = True
    elif cm == 'server_close':
        case['server_close_at'] = round(rng.uniform(0, horizon * 0.7), 3)
        # after the client's echo the server hangs up - or keeps the TCP
        # connection open: then the client's Close is "not completed" and
        # only the close timeout ends it
        case['server_keeps_open'] = rng.random() < 0.4
    case['end'] = rng.choice(['eof', 'eof', 'rst'])
    if family == 'jitter':
        case['latency'] = rng.choice([1000, 20000, int(p * 2e5)])
    if family == 'coincide':
        # several deadlines run out between the same two wake-ups: the ping
        # timeout (nobody answers) and the close timeout of a Close the
        # server ignores, in either order, a fraction of p apart
        k = rng.choice([1, 2, 5])
        m = k + rng.choice([1, 2, 4])
        f1, f2 = rng.choice([(0.3, 0.6), (0.6, 0.3), (0.1, 0.9), (0.5, 0.5),
                             (0.97, 0.03)])
        case.update({
            'ping_rate': rng.choice([0, 0, p * 2, p * 3]),
            'ping_timeout': round((m + f1) * p, 6),
            'close_timeout': round((m + f2 - k) * p, 6),
            'pong': None, 'close_mode': 'app_close',
            'close_at': {'name': 'poll', 'nth': k},
            'close_reply': 'never', 'data': [], 'reply_delay': 0,
            'horizon': (m + 6) * p, 'auto_pong': True})
        for kk in ('heartbeat', 'server_pings', 'trickle', 'full_read_at',
                   'close_repeat'):
            case.pop(kk, None)
    return case


def build(case):
    p = case['poll']
    hs = S.handshake_steps(after=case.get('reply_delay', 0))
    steps = list(hs)
    H = case['horizon']
    tprev = 0.0
    timeline = []
    for k, d in enumerate(case.get('data') or []):
        timeline.append((d, peer.enc_frame(1, b'data%d' % k)))
    tr_ = case.get('trickle')
    if tr_:
        blob = peer.enc_frame(2, b't' * tr_['bytes'])
        for j in range(len(blob)):
            timeline.append((tr_['at'] + j * tr_['every'], blob[j:j + 1]))
        # complete frames must not be cut by the trickle: keep other data out
        timeline = [x for x in timeline if len(x[1]) == 1 or
                    not (tr_['at'] <= x[0] <= tr_['at'] + len(blob) *
                         tr_['every'])]
    sp = case.get('server_pings')
    if sp and not tr_:
        k = 1
        while k * sp['every'] <= sp['until']:
            timeline.append((round(k * sp['every'], 6),
                             peer.enc_frame(9, b'srv-%d' % k)))
            k += 1
    hb = case.get('heartbeat')
    if hb and not tr_:
        k = 1
        while k * hb['every'] <= hb['until']:
            timeline.append((round(k * hb['every'], 6),
                             peer.enc_frame(10, b'hb-%d' % k)))
            k += 1
    if case.get('full_read_at') is not None:
        fr = peer.enc_frame(2, b'F' * (65536 - 4))
        assert len(fr) == 65536
        timeline.append((case['full_read_at'], fr))
    if case.get('close_mode') == 'server_close':
        timeline.append((case['server_close_at'],
                         peer.enc_frame(8, peer.enc_close_payload(1000, 'srv'))))
    timeline.sort(key=lambda x: x[0])
    for tm, fr in timeline:
        steps.append(S.send(fr, after=max(0, int(round((tm - tprev) * 1e6)))))
        tprev = tm
    cm = case.get('close_mode')
    if cm == 'server_close' and case.get('server_keeps_open'):
        steps += [{'op': 'await_close', 'timeout': int(5e6)},
                  {'op': case.get('end', 'eof'),
                   'after': int((H + (case.get('close_timeout') or 0) * 3 +
                                 5 * p) * 1e6)}]
    elif cm == 'server_close':
        steps += [{'op': 'await_close', 'timeout': int(5e6)}, S.eof(after=1000)]
    elif cm == 'app_close':
        rep = case.get('close_reply')
        c = case.get('close_timeout') or p
        if rep == 'prompt':
            d = 1000
        elif rep == 'late':
            d = int((c * 1.5 + p) * 1e6)
        else:
            d = None
        remaining = max(0, int((H - tprev) * 1e6))
        steps.append({'op': 'await_close', 'timeout': remaining})
        if d is not None:
            steps.append(S.send(peer.enc_frame(
                8, peer.enc_close_payload(1000, 'ack')), after=d))
            steps.append({'op': case.get('end', 'eof'), 'after': 1000})
        else:
            steps.append({'op': case.get('end', 'eof'),
                          'after': int((H + (c or 0) * 3 + 5 * p) * 1e6)})
    else:
        steps.append({'op': case.get('end', 'eof'),
                      'after': max(0, int((H - tprev) * 1e6))})
    conn = {'server': steps}
    if case.get('pong'):
        conn['react'] = {'pong': dict(case['pong'])}
    app = []
    if cm == 'app_close':
        app.append({'when': dict(case['close_at']),
                    'do': [{'op': 'close', 'code': 1000, 'reason': 'bye'}]})
        if case.get('close_repeat'):
            # harmless before the first close(): it only acts once closing
            for n in ('poll', 'pong', 'text', 'ping'):
                app.append({'when': {'name': n},
                            'do': [{'op': 'close_if_closing', 'code': 1001,
                                    'reason': 'again'}]})
    sc = {'url': 'ws://example.test/', 'epoch': case.get('epoch', 0),
          'connect': {'poll': p, 'ping_rate': case['ping_rate'],
                      'ping_timeout': case['ping_timeout'],
                      'close_timeout': case['close_timeout'],
                      'auto_pong': case.get('auto_pong', True)},
          'conns': [conn], 'app': app}
    # generous but finite: a legitimate run wakes up about once per poll
    # interval plus once per arrival; a timer storm must end as a reported
    # hang quickly, not after minutes
    total_s = H + 3 * (case.get('close_timeout') or 0) + 10 * p + 5
    budget = 5000 + int(30 * total_s / p)
    sc['max_polls'] = budget
    sc['max_events'] = budget
    if case.get('latency'):
        sc['wake_latency'] = {'*': case['latency']}
    return sc


def execute(case):
    res = Result()
    sc = build(case)
    tr = netsim.run(sc)
    w = tr.world
    res.stats.update(w.stats)
    res.sim_us = w.now
    res.digest = tr.digest()
    p = float(case['poll'])
    r = case['ping_rate']
    t = case['ping_timeout']
    c = case['close_timeout']
    L = (case.get('latency') or 0) / 1e6
    eps = EPS
    names = [e.name for e in tr.events]
    for k, m in oracle.trace_sanity(tr):
        res.bad('C15/sequence/' + k, m)
    ready = [e for e in tr.events if e.name == 'ready']
    if not ready:
        res.nontrivial = False
        res.sig = 'noready'
        return res
    R = ready[0].t

    def rel(us):
        return (us - R) / 1e6

    st = w.socks[-1]
    term = tr.events[-1]
    E = rel(term.t)
    polls = [rel(e.t) for e in tr.events if e.name == 'poll']
    if L:
        res.stats['probe:jitter'] += 1
    if t and not r:
        res.stats['probe:timeout_without_auto_ping'] += 1
    if case.get('server_pings') and any(e.name == 'ping' for e in tr.events):
        res.stats['probe:server_pings'] += 1
    if case.get('heartbeat') and any(e.name == 'pong' for e in tr.events):
        res.stats['probe:unsolicited_pongs'] += 1
    if case.get('full_read_at') is not None and 'binary' in names:
        res.stats['probe:read_filled_buffer_exactly'] += 1
    if sum(1 for cc in tr.calls if cc.op == 'close_if_closing' and
           cc.outcome == 'ok') >= 1:
        res.stats['probe:close_called_again_while_closing'] += 1
    # ---- Poll spacing
    if not polls or polls[0] > eps:
        res.bad('C15/poll/not_right_after_ready',
                'first Poll at %r s after Ready' % (polls[:1],))
    for a, b in zip(polls, polls[1:]):
        if b - a < p - eps:
            res.bad('C15/poll/closer_than_p',
                    'Polls at %.6f and %.6f with p=%s' % (a, b, p))
            break
        if b - a > 2 * (p + L) + eps:
            res.bad('C15/poll/further_than_2p',
                    'Polls at %.6f and %.6f with p=%s' % (a, b, p))
            break
    if polls and E - polls[-1] > 2 * (p + L) + eps:
        res.bad('C15/poll/none_for_2p_before_end',
                'last Poll at %.6f, connection up until %.6f, p=%s' % (
                    polls[-1], E, p))
    # ---- what the client wrote, with times
    wire = oracle.Wire(st)
    frame_time = {}
    pos = 0
    for seq, now, data in st.out:
        frame_time[pos] = now
        pos += len(data)
    app_ranges = [(cc.wire_before, cc.wire_before + cc.wrote)
                  for cc in tr.calls if cc.wrote]
    pings = []
    close_T = None
    for f in wire.frames:
        tm = frame_time.get(f.start)
        if tm is None:
            continue
        if f.opcode == peer.OP_PING and not any(a <= f.start < b
                                                for a, b in app_ranges):
            pings.append(rel(tm))
        if f.opcode == peer.OP_CLOSE and close_T is None:
            close_T = rel(tm)
    open_until = close_T if close_T is not None else E
    # ---- automatic Pings
    if not r:
        res.stats['probe:ping_rate_zero'] += 1
        if pings:
            res.bad('C15/ping/sent_with_rate_zero',
                    'ping_rate=%r but Pings at %r' % (r, pings[:4]))
    else:
        if r < p:
            res.stats['probe:ping_lt_poll'] += 1
        k = 0
        nchk = 0
        while k * r + (p + L) + eps < open_until and nchk < 5000:
            lo, hi = k * r, k * r + p + L
            if not any(lo - eps < x <= hi + eps for x in pings):
                res.bad('C15/ping/missing_after_multiple',
                        'no automatic Ping in (%.6f, %.6f] (k=%d, r=%s, p=%s);'
                        ' Pings at %r' % (lo, hi, k, r, p,
                                          [round(x, 4) for x in pings[:8]]))
                break
            k += 1
            nchk += 1
        res.stats['probe:ping_windows_checked'] += nchk
        for a, b in zip(pings, pings[1:]):
            # a multiple of r must separate them: m in [a - eps, b + eps)
            m = math.ceil((a - eps) / r) * r
            if not (m < b + eps):
                res.bad('C15/ping/twice_in_one_period',
                        'Pings at %.6f and %.6f within one period of r=%s' % (
                            a, b, r))
                break
        if any(x > open_until + eps for x in pings) and close_T is not None:
            res.bad('C15/ping/after_close', 'Close at %.6f, Pings %r' % (
                close_T, pings[-3:]))
    # ---- ping timeout
    pong_times = [rel(e.t) for e in tr.events if e.name == 'pong']
    unresp = [e for e in tr.events if e.name == 'unresponsive']
    marks = [0.0] + pong_times
    if unresp:
        res.stats['probe:unresponsive_seen'] += 1
        u = rel(unresp[0].t)
        last = max(x for x in marks if x <= u + eps)
        if not t:
            res.bad('C15/unresponsive/without_timeout',
                    'ping_timeout=%r but Unresponsive at %.6f' % (t, u))
        elif u - last <= t - eps:
            res.bad('C15/unresponsive/too_early',
                    'Unresponsive at %.6f, last Pong/Ready at %.6f, t=%s' % (
                        u, last, t))
        hb_ = case.get('heartbeat')
        if t and hb_ and not case.get('trickle'):
            # the Pongs the server sent on its own arrived when they were
            # sent, whether or not the client reported them (also while a
            # closing handshake is pending): each is a sign of life
            k_ = 1
            while k_ * hb_['every'] <= hb_['until']:
                x = k_ * hb_['every']
                if x <= u - 0.002 and u - x <= t - eps:
                    res.bad('C15/unresponsive/too_early_after_server_pong',
                            'Unresponsive at %.6f although a Pong arrived '
                            'at %.6f, t=%s (Pong events seen at %r)' % (
                                u, x, t, [round(y, 4) for y in
                                          pong_times[-4:]]))
                    break
                k_ += 1
        i = unresp[0].index
        nxt = tr.events[i + 1] if i + 1 < len(tr.events) else None
        if nxt is None or nxt.name != 'disconnected' or nxt.snap[1]:
            res.bad('C15/unresponsive/not_followed_by_nongraceful',
                    'events %s' % names[-4:])
    if t:
        # never still up at last + t + p
        pts = sorted(marks) + [None]
        for a, b in zip(pts, pts[1:]):
            end = b if b is not None else E
            if end - a > t + p + L + eps and not (unresp and rel(
                    unresp[0].t) <= a + t + p + L + eps):
                res.bad('C15/unresponsive/missed',
                        'last Pong/Ready at %.6f, t=%s, p=%s, but the '
                        'connection was still up at %.6f' % (a, t, p, end))
                break
        if any(x > 0 for x in pong_times) and case.get('pong', {}) and \
                (case['pong'] or {}).get('delay', 0) > 1e5:
            res.stats['probe:late_pong'] += 1
    # ---- close timeout
    disc = term if term.name == 'disconnected' else None
    if unresp and close_T is not None and c and \
            rel(unresp[0].t) >= close_T + c - eps:
        res.stats['probe:both_deadlines_passed_at_one_wakeup'] += 1
    if t and disc is not None and not unresp and not disc.snap[1] \
            and 'protocol_error' not in names:
        # The connection was ended by force (close timeout) at E.  If more
        # than t had passed since the last sign of life by then, the same
        # wake-up had to report Unresponsive first: both checks look at one
        # clock reading.  Every Pong event and every Pong the server sent on
        # its own up to E counts as a sign of life (lenient).
        signs = [x for x in marks if x <= E + eps]
        hb_ = case.get('heartbeat')
        if hb_:
            k_ = 1
            while k_ * hb_['every'] <= min(hb_['until'], E):
                signs.append(k_ * hb_['every'])
                k_ += 1
        eofs_ = [rel(m[1]) for m in w.marks]
        if not any(x <= E + p + L + eps for x in eofs_) and \
                E - max(signs) > t + L + eps and not case.get('trickle'):
            res.stats['probe:deadlines_coincided'] += 1
            res.bad('C15/unresponsive/skipped_when_deadlines_coincide',
                    'forced Disconnected at %.6f without Unresponsive although '
                    'the last Pong/Ready was at %.6f and t=%s (p=%s c=%s)' % (
                        E, max(signs), t, p, c))
    graceful = bool(disc and disc.snap[1])
    if graceful:
        res.stats['probe:graceful_end'] += 1
    eofs = [rel(m[1]) for m in w.marks]
    perr = 'protocol_error' in names
    completed = 'closed' in names or 'closing' in names
    keeps = bool(case.get('server_keeps_open')) and 'closing' in names \
        and 'closed' not in names
    if keeps:
        res.stats['probe:server_closes_first_then_keeps_tcp_open'] += 1
    if close_T is not None and ((not completed and 'closing' not in names)
                                or keeps):
        if c:
            lo, hi = close_T + c, close_T + c + p + L
            other = unresp or perr or any(x < lo - eps for x in eofs)
            if disc and not graceful and lo - eps <= E <= hi + eps:
                res.stats['probe:close_timeout_fired'] += 1
            elif not other:
                res.bad('C15/close_timeout/not_in_window',
                        'Close written at %.6f, c=%s, p=%s: connection ended '
                        'at %.6f (graceful=%s), expected a forced '
                        'Disconnected in [%.6f, %.6f]' % (
                            close_T, c, p, E, graceful, lo, hi))
            if E < lo - eps and not other and not graceful:
                res.bad('C15/close_timeout/too_early',
                        'forced at %.6f, Close at %.6f, c=%s' % (E, close_T, c))
        else:
            res.stats['probe:close_timeout_disabled'] += 1
    # ---- every non-graceful end must be justified
    if disc and not graceful:
        why = []
        if unresp:
            why.append('ping_timeout')
        if perr:
            why.append('protocol_error')
        if any(abs(x - E) <= p + L + eps or x <= E for x in eofs):
            why.append('transport_end')
        if close_T is not None and c and E >= close_T + c - eps:
            why.append('close_timeout')
        if not why:
            res.bad('C15/unjustified_disconnect',
                    'non-graceful Disconnected at %.6f: p=%s r=%s t=%s c=%s '
                    'close at %s, server end at %s' % (E, p, r, t, c, close_T,
                                                       eofs))
    if case.get('data'):
        res.stats['probe:data_wakeups'] += 1
    if case.get('trickle'):
        res.stats['probe:trickled_frame'] += 1
    if not case.get('auto_pong', True):
        res.stats['probe:auto_pong_off'] += 1
    res.nontrivial = len(polls) >= 3
    res.sig = '%s|%s|%s|%s|%s|%s|%s|%s' % (
        p, r, t, c, case.get('close_mode'), case.get('close_reply'),
        (case.get('pong') or {}).get('delay'), len(case.get('data') or []))
    res.sample = {'poll': p, 'ping_rate': r, 'ping_timeout': t,
                  'close_timeout': c, 'close_mode': case.get('close_mode'),
                  'pong': case.get('pong'), 'polls': len(polls),
                  'pings': [round(x, 3) for x in pings[:6]],
                  'end': round(E, 3), 'last_events': names[-4:]}
    return res
