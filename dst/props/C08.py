"""C08 - the closing handshake completes correctly in both directions."""
import struct

from .. import netsim, oracle, peer, scen as S, streams as ST
from ..runner import Result

ID = 'C08'
LEVEL = 'exploration'
RULE = ('seeded histories of three kinds - client first (application close() '
        'at a seeded event incl. Connected, optional second close(), server '
        'messages before / between / then the server Close), server first '
        '(server Close with any valid code/reason or an empty payload; '
        'application sends or closes inside Closing; server then drops the '
        'connection), crossing (application close() while the server Close is '
        'already in the receive buffer) - with application sends at every '
        'event, seeded segmentation.  Oracle: decoded client wire (<= 1 '
        'Close, right code/reason, no data after it), refusal of later sends, '
        'delivery of in-between messages, Closed/Closing + graceful '
        'Disconnected, socket closed.  Non-trivial = a Close frame crossed '
        'the wire in each direction; distinct = distinct (kind, close event, '
        'layout, in-closing ops) signatures')
RULE += (' '
         'Also: close_timeout in {30, 0, None} with late server answers, '
         'every valid close code (incl. 1012, 1013, 3999, 4000), a failed '
         'write of the Close, an earlier abandoned connection whose '
         'generator the consumer lets go of in the middle of this handshake, '
         'and a `pair` family (two connections interleaved).')
SHRINK_LISTS = [('pre',), ('mid',), ('in_closing',), ('cuts',)]
EXPECTED_PROBES = ['client_first', 'server_first', 'crossing',
                   'close_before_ready', 'second_close', 'send_refused',
                   'sent_inside_closing', 'app_close_inside_closing',
                   'message_between_closes', 'empty_close_payload',
                   'after_bad_close_on_earlier_connection', 'close_write_failed',
                   'close_timeout_disabled', 'two_connections_interleaved',
                   'old_generator_released_mid_handshake',
                   'reset_after_close_handshake',
                   'compressed_message_between_closes']

# every code a peer may send: the RFC 6455 ones, the two registered later
# (1012 service restart, 1013 try again later), the 3000 and 4000 ranges
CODES = [1000, 1001, 1002, 1003, 1007, 1008, 1009, 1010, 1011, 1012, 1013,
         3000, 3999, 4000, 4999]


def plan(tier):
    return [('seeded', 12000 if tier == 'quick' else 250000),
            ('pair', 800 if tier == 'quick' else 30000)]


def _sclose(rng):
    if rng.random() < 0.15:
        return {'code': None, 'reason': u''}
    n = rng.choice([0, 0, 1, 20, 123])
    reason = S.rand_text(rng, n)
    while len(reason.encode('utf-8')) > 123:
        reason = reason[:-1]
    return {'code': rng.choice(CODES), 'reason': reason}


def make_case(family, i, rng, tier):
    if family == 'pair':
        cs = []
        for _ in range(2):
            c = make_case('seeded', rng.randrange(3000), rng, tier)
            while c.get('prelude') or c.get('close_write_fails') or \
                    c.get('reply_after'):
                c = make_case('seeded', rng.randrange(3000), rng, tier)
            c['gaps'] = [rng.choice([0, 0, 1000])]
            if c.get('seg') == 'bytes':
                c['seg'] = 'cuts'
            cs.append(c)
        return {'pair': cs, 'kind': 'pair',
                'order': [rng.randrange(2) for _ in range(
                    rng.choice([2, 3, 5, 8]))] + [0, 1]}
    kind = ['client_first', 'server_first', 'crossing'][i % 3]
    pre = ST.make_items(rng, 4) if rng.random() < 0.8 else []
    for it in pre:
        if it['kind'] in ('text', 'binary'):
            # keep histories short: small payloads
            if 'text' in it:
                it['text'] = it['text'][:200]
            else:
                it['hex'] = it['hex'][:400]
            it['cuts'] = [c for c in it.get('cuts', []) if c <= 100][:2]
            n = len(it['cuts']) + 1
            it['lenforms'] = (it.get('lenforms') or [None])[:n]
            it['inner'] = (it.get('inner') or [])[:n - 1]
    case = {'kind': kind, 'pre': pre, 'sclose': _sclose(rng),
            'close_timeout': rng.choice([30, 30, 0, None, 0.0]),
            'reply_after': rng.choice([0, 0, 700000, 6000000]),
            # how the server lets go after the handshake: FIN, or a reset
            # (shutdown() on the client's socket then fails with ENOTCONN)
            'end': rng.choice(['eof', 'eof', 'rst']),
            'compress': rng.random() < 0.25,
            'send_everywhere': rng.random() < 0.6,
            'eof_after': rng.random() < 0.7}
    enc = ST.encode_items(pre)
    evs = enc.expected
    if kind in ('client_first', 'crossing'):
        choices = [{'name': 'ready'}]
        if kind == 'client_first':
            choices += [{'name': 'connected'}, {'name': 'poll', 'nth': 1}]
        counts = {}
        for e in evs:
            n = counts.get(e[0], 0)
            counts[e[0]] = n + 1
            choices.append({'name': e[0], 'nth': n})
        if kind == 'crossing' and len(choices) > 1:
            choices = choices[1:] + choices[:1]
        code = rng.choice([None, 1000, 1000, 1001, 3000, 4999])
        n = rng.choice([0, 7, 123])
        reason = S.rand_text(rng, n)
        while len(reason.encode('utf-8')) > 123:
            reason = reason[:-1]
        ac = {'at': rng.choice(choices), 'twice': rng.random() < 0.3}
        if rng.random() < 0.8:
            ac['code'] = code
            ac['reason'] = reason
        case['app_close'] = ac
        case['mid'] = ST.make_items(rng, 3) if kind == 'client_first' and \
            rng.random() < 0.6 else []
        for it in case['mid']:
            if 'text' in it:
                it['text'] = it['text'][:100]
            elif it['kind'] == 'binary':
                it['hex'] = it['hex'][:200]
            if it['kind'] in ('text', 'binary'):
                it['cuts'] = []
                it['lenforms'] = [None]
                it['inner'] = []
    else:
        ops = []
        for _ in range(rng.choice([0, 1, 1, 2, 3])):
            ops.append(rng.choice([
                {'op': 'send_text', 'text': u'in closing é'},
                {'op': 'send_binary', 'hex': '0102ff'},
                {'op': 'send_ping', 'hex': '70'},
                {'op': 'send_pong', 'hex': '71'}]))
        if rng.random() < 0.25:
            ops.insert(rng.randrange(len(ops) + 1),
                       {'op': 'close', 'code': rng.choice([1000, 1001, 4000]),
                        'reason': 'app says bye'})
        case['in_closing'] = ops
    if kind == 'client_first' and rng.random() < 0.12:
        # the write carrying the Close fails without killing the connection
        # (time-out / arbitrary error): the websocket must still be closing
        case['close_write_fails'] = rng.choice(['timeout', 'exc', 'eintr',
                                                'enobufs'])
        case['send_everywhere'] = True
        if rng.random() < 0.5:
            # ... after the kernel took some or all of the frame: a Close
            # (or the start of one) IS on the wire although the call failed
            case['close_write_partial'] = rng.choice([1, 3, 1000000])
    if rng.random() < 0.15:
        # an earlier connection on the same object that ended badly around a
        # Close frame; nothing of it may influence the handshake under test
        case['prelude'] = rng.choice(['close_truncated_reason',
                                      'close_bad_utf8', 'eof_inside_close',
                                      'close_1byte'])
    elif rng.random() < 0.12 and not case.get('close_write_fails'):
        # an earlier connection on the same object whose event loop was
        # abandoned at a message; the consumer still holds that generator
        # and lets go of it somewhere in the middle of the handshake under
        # test (a send tried right afterwards must fare as without that)
        case['prelude'] = 'abandoned_held'
        case['release_at'] = rng.choice(['ready', 'text', 'binary', 'ping',
                                         'poll', 'closing', 'closed'])
    if case['compress'] and rng.random() < 0.7:
        # the server compresses its messages, one context for the whole
        # connection; what it sends between the two Close frames repeats
        # what it sent before the client's close (a back-reference into the
        # window the client must still hold)
        case['zframes'] = True
        data = [it for it in case['pre'] if it['kind'] in ('text', 'binary')]
        if case.get('mid') is not None and kind == 'client_first' and data:
            it = dict(rng.choice(data), cuts=[], lenforms=[None], inner=[])
            case['mid'] = [it] + list(case.get('mid') or [])
    case.update(ST.seg_fields(rng))
    # keep the whole exchange well inside the 30 s close timeout
    case['gaps'] = [rng.choice([0, 0, 1000]) for _ in range(3)]
    if case['seg'] == 'bytes':
        case['gaps'] = [0]
    return case


SENDS = [{'op': 'send_text', 'text': u'late'}, {'op': 'send_ping'}]
ALL_EVENTS = ('connected', 'ready', 'text', 'binary', 'ping', 'pong', 'poll',
              'closing', 'closed', 'disconnected')


def build(case):
    kind = case['kind']
    sc_item = dict(case['sclose'], kind='close')
    app = []
    dp = peer.DeflatePeer()

    def transform(payload, it):
        if case.get('zframes') and case.get('compress') and \
                it.get('kind') in ('text', 'binary'):
            return dp.compress(payload), 1
        return payload, 0

    if kind == 'client_first':
        enc = ST.encode_items(case.get('pre') or [], transform=transform)
        enc2 = ST.encode_items((case.get('mid') or []) + [sc_item],
                               transform=transform)
        tail = [{'op': 'await_close', 'timeout': 20000000},
                S.send(bytes(enc2.stream), after=case.get('reply_after', 0))]
        expected = enc.expected + enc2.expected
    else:
        enc = ST.encode_items((case.get('pre') or []) + [sc_item],
                              transform=transform)
        tail = [{'op': 'await_close', 'timeout': 20000000}]
        expected = enc.expected
    if kind == 'client_first' and case.get('eof_after', True) and \
            case.get('end') == 'rst':
        # the server's Close and a reset arrive together
        tail.append(S.rst(after=0))
        case_rst = True
    elif case.get('eof_after', True) or kind == 'server_first':
        tail.append(S.eof(after=1000))
    else:
        tail.append({'op': 'silence'})
    ac = case.get('app_close')
    if ac:
        op = {'op': 'close'}
        if 'code' in ac:
            op['code'] = ac['code']
            op['reason'] = ac['reason']
        ops = [op]
        if ac.get('twice'):
            ops.append({'op': 'close', 'code': 1001, 'reason': 'second'})
        app.append({'when': dict(ac['at']), 'do': ops})
    if case.get('in_closing'):
        app.append({'when': {'name': 'closing'},
                    'do': list(case['in_closing'])})
    if case.get('send_everywhere'):
        for n in ALL_EVENTS:
            app.append({'when': {'name': n}, 'do': list(SENDS)})
    extra, ws = (), None
    if case.get('compress'):
        # permessage-deflate offered and accepted (the frames of this
        # exchange are sent uncompressed, which stays legal)
        extra = [b'Sec-WebSocket-Extensions: permessage-deflate']
        ws = {'compress': True}
    sc = ST.stream_scenario(case, enc, tail, app=app, extra_headers=extra,
                            ws=ws,
                            connect={'ping_rate': 0, 'poll': 5,
                                     'close_timeout': case.get(
                                         'close_timeout', 30)})
    if case.get('close_write_fails'):
        sc['conns'][0]['faults'] = [{'op': 'sendall', 'first_byte': 0x88,
                                     'kind': case['close_write_fails']}]
        if case.get('close_write_partial'):
            sc['conns'][0]['faults'][0]['partial'] = \
                int(case['close_write_partial'])
        sc['connect']['close_timeout'] = 2
    pre = case.get('prelude')
    if pre == 'abandoned_held':
        first = {'server': S.handshake_steps() + [
            S.send(peer.enc_frame(1, b'first connection')),
            S.eof(after=5000001)]}
        sc['conns'] = [first] + sc['conns']
        sc['n_connects'] = 2
        rules = sc.get('app') or []
        for rule in rules:
            rule['when'] = dict(rule['when'], attempt=1)
        rel = {'when': {'name': case['release_at'], 'attempt': 1},
               'do': [{'op': 'release_old'}] + list(SENDS)}
        # after the rules that may call close() at the same event
        sc['app'] = [{'when': {'name': 'text', 'attempt': 0},
                      'do': [{'op': 'abandon', 'how': 'hold'}]}] + rules + [rel]
    elif pre:
        fr = {'close_truncated_reason': peer.enc_frame(8, b'\x03\xe8caf\xc3'),
              'close_bad_utf8': peer.enc_frame(8, b'\x03\xe8\xff\xfe'),
              'eof_inside_close': peer.enc_frame(8, b'\x03\xe8bye')[:3],
              'close_1byte': peer.enc_frame(8, b'\x03')}[pre]
        first = {'server': S.handshake_steps() + [S.send(fr),
                                                  S.eof(after=1000)]}
        sc['conns'] = [first] + sc['conns']
        sc['n_connects'] = 2
        for rule in sc.get('app') or []:
            rule['when'] = dict(rule['when'], attempt=1)
    return sc, expected


def _close_payload(code, reason):
    if code is None:
        return b''
    if isinstance(reason, str):
        reason = reason.encode('utf-8')
    return struct.pack('!H', code) + reason


def execute(case):
    if 'pair' in case:
        # two connections alive at once, advanced in an interleaved order
        res = Result()
        a, b = case['pair']
        sa, ea = build(a)
        sb, eb = build(b)
        trs = netsim.run_multi(netsim.pair_scenario(sa, sb, case['order']))
        res.stats['probe:two_connections_interleaved'] += 1
        _judge(res, a, sa, ea, trs[0])
        h, sig, nt = res.digest, res.sig, res.nontrivial
        _judge(res, b, sb, eb, trs[1])
        res.digest = h + res.digest
        res.sig = sig + '||' + res.sig
        res.nontrivial = nt or res.nontrivial
        return res
    res = Result()
    sc, expected = build(case)
    tr = netsim.run(sc)
    return _judge(res, case, sc, expected, tr)


def _judge(res, case, sc, expected, tr):
    res.stats.update(tr.world.stats)
    res.sim_us = tr.world.now
    res.digest = tr.digest()
    kind = case['kind']
    if case.get('prelude') == 'abandoned_held':
        res.stats['probe:old_generator_released_mid_handshake'] += \
            tr.world.stats.get('probe:old_generator_released_late', 0)
    if case.get('prelude'):
        res.stats['probe:after_bad_close_on_earlier_connection'] += 1
        last = oracle.split_attempts(tr.events)[-1]
        first_idx = last[0].index
        tr.events = last
        tr.calls = [c for c in tr.calls if c.at_event >= first_idx]
        for e in tr.events:
            e.index -= first_idx
        for c in tr.calls:
            c.at_event -= first_idx
        tr.finished = True
    names = tr.names()
    res.stats['probe:' + kind] += 1
    if not case.get('close_timeout'):
        res.stats['probe:close_timeout_disabled'] += 1
    st = tr.world.socks[-1]
    wire = oracle.Wire(st)
    closes = [f for f in wire.frames if f.opcode == peer.OP_CLOSE]
    # ---- in every history: <= 1 Close, no data frame after it
    for k, m in oracle.close_discipline(wire):
        res.bad('C08/%s/%s' % (kind, k), m)
    for k, m in oracle.wire_problems(wire, False):
        res.xobs.append('C03/' + k)
    # position (in wire bytes) of the client's Close frame
    close_start = closes[0].start if closes else None
    ac = case.get('app_close')
    app_close_calls = [c for c in tr.calls if c.op == 'close']
    first_app_close = None
    for c in app_close_calls:
        if c.wrote:
            first_app_close = c
            break
    got = [oracle.payload_of(e.snap) for e in oracle.msg_events(tr)]
    disc = [e for e in tr.events if e.name == 'disconnected']
    sclose = case['sclose']

    if case.get('close_write_fails'):
        # the write of the Close failed (nothing, a part or all of it had
        # reached the wire by then); from the close() call on the
        # application must be refused, whatever the transport did
        res.stats['probe:close_write_failed'] += 1
        if case.get('close_write_partial'):
            res.stats['probe:close_write_failed_after_partial_write'] += 1
        cl = [c for c in tr.calls if c.op == 'close']
        if cl:
            t_close = cl[0].seq
            for c in tr.calls:
                if c.op != 'close' and c.seq > t_close and (
                        c.outcome == 'ok' or c.wrote):
                    res.bad('C08/client_first/send_accepted_after_failed_close',
                            '%s accepted (wrote %d bytes) after close() whose '
                            'write failed with %s' % (c.op, c.wrote,
                                                      case['close_write_fails']))
                    break
        if len(closes) > 1:
            res.bad('C08/client_first/two_closes_after_failed_close', '')
        for k, m in oracle.trace_sanity(tr):
            if k in ('hang', 'escaped'):
                res.bad('C08/client_first/%s' % k, m)
        res.nontrivial = bool(cl)
        res.sig = 'close_write_fails|%s|%s' % (case['close_write_fails'],
                                               (ac or {}).get('at'))
        res.sample = {'kind': kind, 'close_write_fails':
                      case['close_write_fails'], 'events': names[:12]}
        return res
    if kind in ('client_first', 'crossing'):
        if ac['at'].get('name') == 'connected':
            res.stats['probe:close_before_ready'] += 1
        # exactly one Close with the given code and reason
        code = ac.get('code', 1000) if 'code' in ac else 1000
        reason = ac.get('reason', 'goodbye') if 'code' in ac else 'goodbye'
        want = _close_payload(code, reason)
        if first_app_close is None:
            res.bad('C08/%s/app_close_not_written' % kind,
                    'close() at %r wrote nothing; events %s' % (ac['at'], names))
        elif len(closes) >= 1 and closes[0].payload != want:
            res.bad('C08/%s/close_payload' % kind,
                    'Close carries %r, expected %r' % (closes[0].payload[:40],
                                                       want[:40]))
        if ac.get('twice'):
            res.stats['probe:second_close'] += 1
        # messages keep being delivered; Closed then graceful Disconnected
        exp = list(expected)
        exp[-1] = ('closed',) + exp[-1][1:]
        if got != exp:
            res.bad('C08/%s/events' % kind,
                    'expected %r got %r' % (_short(exp), _short(got)))
        elif case.get('mid'):
            res.stats['probe:message_between_closes'] += 1
            if case.get('zframes') and case.get('compress'):
                res.stats['probe:compressed_message_between_closes'] += 1
        if not disc or not disc[-1].snap[1]:
            res.bad('C08/%s/not_graceful' % kind, 'events %s' % names[-5:])
        if names[-2:] != ['closed', 'disconnected'] and \
                not case.get('send_everywhere'):
            res.bad('C08/%s/closed_not_followed_by_disconnected' % kind,
                    'events %s' % names[-5:])
    else:
        # server first
        if got != expected:
            res.bad('C08/server_first/events',
                    'expected %r got %r' % (_short(expected), _short(got)))
        app_closed_in_closing = any(o['op'] == 'close'
                                    for o in case.get('in_closing') or [])
        if len(closes) != 1:
            res.bad('C08/server_first/echo_count_%d' % len(closes),
                    'server Close %r: %d Close frames written' % (
                        sclose, len(closes)))
        else:
            if app_closed_in_closing:
                res.stats['probe:app_close_inside_closing'] += 1
                o = [o for o in case['in_closing'] if o['op'] == 'close'][0]
                want = _close_payload(o['code'], o['reason'])
                if closes[0].payload != want:
                    res.bad('C08/server_first/app_close_payload',
                            '%r != %r' % (closes[0].payload, want))
            else:
                if closes[0].close_code != sclose['code']:
                    res.bad('C08/server_first/echo_code',
                            'echoed %r for server code %r' % (
                                closes[0].close_code, sclose['code']))
        if not disc or not disc[-1].snap[1]:
            res.bad('C08/server_first/not_graceful', 'events %s' % names[-5:])
        if sclose['code'] is None:
            res.stats['probe:empty_close_payload'] += 1

    # ---- application calls: allowed before the Close / inside Closing,
    # refused afterwards
    closing_idx = None
    for e in tr.events:
        if e.name == 'closing':
            closing_idx = e.index
    for c in tr.calls:
        if c.op == 'close':
            continue
        evname = tr.events[c.at_event].name
        after_close = close_start is not None and \
            c.wire_before > close_start
        if c.outcome == 'ok':
            if c.wrote == 0:
                res.bad('C08/%s/send_ok_wrote_nothing' % kind, c.summary())
            if after_close:
                res.bad('C08/%s/send_accepted_after_close' % kind,
                        '%s at %s wrote %d bytes after the Close' % (
                            c.op, evname, c.wrote))
            if evname == 'closing':
                res.stats['probe:sent_inside_closing'] += 1
        else:
            if not c.exc_is_wse:
                res.bad('C08/%s/send_raised_%s' % (kind, c.exc),
                        '%s at %s' % (c.op, evname))
            if c.wrote:
                res.bad('C08/%s/refused_but_wrote' % kind, c.summary())
            res.stats['probe:send_refused'] += 1
            if closing_idx is not None and c.at_event == closing_idx:
                # inside Closing sends must be allowed, unless the
                # application already closed in that handler
                prior_close = any(cc.op == 'close' and cc.at_event ==
                                  closing_idx and cc.seq < c.seq
                                  for cc in tr.calls)
                if not prior_close:
                    res.bad('C08/server_first/send_refused_inside_closing',
                            '%s raised %s' % (c.op, c.exc))
            elif close_start is None and evname in ('ready', 'text', 'binary',
                                                    'ping', 'pong', 'poll'):
                res.bad('C08/%s/send_refused_while_open' % kind,
                        '%s at %s raised %s' % (c.op, evname, c.exc))
    if not st.closed:
        res.bad('C08/%s/socket_left_open' % kind, 'events %s' % names[-4:])
    elif st.closed_by_gc:
        # dropped without close(): only the garbage collector released it
        res.bad('C08/%s/socket_not_closed_by_library' % kind,
                'events %s (shutdown failed: %s)' % (
                    names[-4:], bool(tr.world.stats.get(
                        'fault:shutdown_enotconn'))))
    if tr.world.stats.get('fault:shutdown_enotconn'):
        res.stats['probe:reset_after_close_handshake'] += 1
    for k, m in oracle.trace_sanity(tr):
        res.xobs.append('C07/' + k)
        if k in ('hang', 'escaped'):
            res.bad('C08/%s/%s' % (kind, k), m)
    res.nontrivial = bool(closes) and ('closed' in names or 'closing' in names)
    res.sig = '%s|%s|%s|%s|%s' % (
        kind, (ac or {}).get('at'), ','.join(n[:3] for n in names),
        [o['op'] for o in case.get('in_closing') or []],
        case.get('send_everywhere'))
    res.sample = {'kind': kind, 'app_close': ac, 'server_close': sclose,
                  'in_closing': case.get('in_closing'), 'events': names[:20],
                  'wire': [f.summary()['op'] for f in wire.frames][:12]}
    return res


def _short(lst):
    out = []
    for x in lst[-4:]:
        out.append(tuple((v[:16] if isinstance(v, (bytes, str)) else v)
                         for v in x))
    return out
