"""C18 - available data is always drained without waiting for more traffic."""
import random

from .. import netsim, oracle, peer, scen as S, streams as ST
from ..runner import Result

ID = 'C18'
LEVEL = 'exploration'
RULE = ('arrival patterns on plain and TLS-model transports: bursts of 1 / 2 '
        '/ 100 / 5000 small frames in one segment, single messages of 64 KiB-1 '
        '/ 64 KiB / 64 KiB+1 / 200 KiB / 1 MiB, TLS records of up to 16384 '
        'bytes holding many frames and frames spanning records, Pings inside '
        'bursts; after each burst the peer is silent for 10 x poll; fault: '
        'short reads (recv_into returns fewer bytes than requested although '
        'more are buffered; on TLS the rest is visible only through '
        'pending()).  Oracle: every message event is yielded, and every '
        'automatic Pong written, at exactly the virtual time at which its '
        'last byte became available.  Non-trivial = >= 1 burst after Ready; '
        'distinct = distinct (transport, burst shapes, record sizes, short-'
        'read size) signatures.  TLS is a record/pending model, not OpenSSL')
RULE += (' '
         'Also: bursts of exactly N x 65536 bytes, the last byte of a burst '
         'in a segment of its own (SO_RCVLOWAT is modelled), bursts ending '
         'in payload-less frames, a control frame inside an unfinished '
         'message, read-ahead TLS, ws:// through an https:// proxy, '
         'ThreadSim family.')
SHRINK_LISTS = [('bursts',)]
EXPECTED_PROBES = ['tls', 'plain', 'burst_over_64k', 'many_frames_one_read',
                   'frame_spans_records', 'tls_pending_nonzero',
                   'ping_in_burst', 'message_1mib', 'tls_readahead',
                   'burst_ends_with_empty_frame', 'ctl_inside_unfinished_message',
                   'threaded', 'pong_before_next_wait',
                   'burst_exact_multiple_of_buffer',
                   'pong_write_failed_mid_read', 'slow_ping_handler']
ASSUMPTIONS = ['the "real loopback TCP and TLS runs" clause of the property '
               'is runtime observation of uncontrolled executions and is not '
               'part of this verdict (DESIGN.md section 10)']


TSLOT = 3000


_RACE = [None]


def _race():
    from . import _threads as T
    if _RACE[0] is None:
        _RACE[0] = T.RaceFamily(TBASES)
    return _RACE[0]


def plan(tier):
    return [('seeded', 1200 if tier == 'quick' else 40000),
            ('huge', 40 if tier == 'quick' else 1500),
            ('threaded_sweep', len(TBASES) * TSLOT),
            ('threaded_race', _race().size(tier)),
            ('threaded_random', 400 if tier == 'quick' else 30000),
            ('pong_fault', 400 if tier == 'quick' else 15000)]


# ThreadSim family: a sender thread is in the middle of a (split) socket write
# when the event loop receives a Ping; the automatic Pong must be on the wire
# before the loop goes back to waiting.
def _tb(n):
    return {'op': 'send_binary', 'hex': ('T1-0-' + 'x' * n).encode().hex()}


TBASES = [
    {'name': 'pong_vs_sender', 'threads': [[_tb(3000)]], 'loop': ['ping']},
    {'name': 'pong_vs_two_senders', 'threads': [[_tb(200)], [
        {'op': 'send_text', 'text': 'T2-0-' + 'y' * 50}]], 'loop': ['ping']},
    {'name': 'pong_and_text_vs_sender', 'threads': [[_tb(500), _tb(10)]],
     'loop': ['text', 'ping']},
]
_TINFO = {}


def _tinfo(b):
    from . import _threads as T
    if b not in _TINFO:
        _TINFO[b] = T.default_steps(TBASES[b])
    return _TINFO[b]


def _threaded_case(family, i, rng, tier):
    import copy
    from . import _threads as T
    if family == 'threaded_race':
        case = _race().case(i, tier)
    elif family == 'threaded_sweep':
        b = i // TSLOT
        n, nt = _tinfo(b)
        slot = i % TSLOT
        step, who = slot // (nt + 1), slot % (nt + 1)
        if step < 1 or step > n:
            return None
        tid = who if who < nt else T.threadsim.CLOCK
        case = copy.deepcopy(TBASES[b])
        case['schedule'] = {'kind': 'preempt', 'points': [[step, tid]]}
    else:
        case = copy.deepcopy(TBASES[rng.randrange(len(TBASES))])
        case['schedule'] = {'kind': 'random', 'seed': rng.getrandbits(32),
                            'stay': rng.choice([0.5, 0.8, 0.95])} \
            if rng.random() < 0.6 else \
            {'kind': 'pct', 'seed': rng.getrandbits(32), 'd': rng.choice([1, 2]),
             'horizon': 400}
    case['threaded'] = True
    return case


def make_case(family, i, rng, tier):
    if family.startswith('threaded'):
        return _threaded_case(family, i, rng, tier)
    if family == 'pong_fault':
        # the write of an automatic Pong fails: the frames behind that Ping
        # that had already arrived are still delivered (scenario and oracle
        # of C01's pong_fault family)
        from . import C01
        c = C01.make_case('pong_fault', i, rng, tier)
        return {'pong_fault': c}
    tls = rng.random() < 0.5
    bursts = []
    for _ in range(rng.choice([1, 2, 3])):
        kind = rng.choice(['small_frames', 'small_frames', 'one_big', 'mixed',
                           'split_msg', 'exact'])
        b = {'kind': kind}
        if kind == 'small_frames':
            b['n'] = rng.choice([1, 2, 100, 100, 1000] +
                                ([5000] if family == 'huge' else []))
            b['size'] = rng.choice([0, 1, 10, 125, 126])
        elif kind == 'one_big':
            b['size'] = rng.choice([65535, 65536, 65537, 200000, 16384, 16385,
                                    32768] + ([1 << 20] if family == 'huge'
                                              else []))
            b['frags'] = rng.choice([1, 1, 3])
        elif kind == 'exact':
            # the whole burst is exactly N x 65536 bytes: every read of it
            # fills the receive buffer to the last byte
            b['mult'] = rng.choice([1, 1, 2, 3])
            b['n'] = rng.choice([0, 3, 20])
            b['size'] = rng.choice([0, 10, 125])
        elif kind == 'split_msg':
            # first fragment(s) and a control frame now, the rest of the
            # message only after the silence: the control frame must not wait
            b['size'] = rng.choice([10, 300, 20000])
            b['ctl'] = rng.choice(['ping', 'ping', 'pong'])
        else:
            b['n'] = rng.choice([10, 60])
            b['size'] = rng.choice([100, 3000, 17000])
        b['pings'] = rng.choice([0, 0, 1, 5])
        # what ends the burst: frames that carry no payload byte are the
        # ones a parser can leave undelivered until more traffic arrives
        b['last'] = rng.choice([None, None, 'empty_text', 'empty_fin_cont',
                                'empty_binary', 'empty_ping',
                                'empty_bin_cont'])
        b['seed'] = rng.getrandbits(32)
        bursts.append(b)
    case = {'tls': tls, 'bursts': bursts, 'poll': rng.choice([5, 1, 0.2]),
            'record': rng.choice([16384, 16384, 4096, 1000, 16383]),
            'segment': rng.choice(['one', 'mss', 'seeded']),
            'short': rng.choice([None, None, 1, 7, 1000, 16000, 65535]),
            'reply_glued': rng.random() < 0.3,
            'readahead': tls and rng.random() < 0.35,
            'auto_pong': True}
    if rng.random() < 0.12:
        # the application takes longer than the poll interval to handle the
        # first Ping (a Poll falls due meanwhile); only what is written is
        # judged then, not when
        case['slow_ping_handler'] = True
    if tls and rng.random() < 0.3:
        # the TLS layer belongs to an https:// proxy, the URL itself is ws://
        case['via_https_proxy'] = True
    if rng.random() < 0.15:
        # the last byte of every burst travels in a segment of its own
        case['segment'] = 'tail1'
    if any(b['kind'] == 'exact' for b in bursts) and rng.random() < 0.8:
        case.update(tls=False, segment='one', short=None, reply_glued=False,
                    readahead=False)
    return case


def build(case):
    rng0 = random.Random(case['bursts'][0]['seed'] if case['bursts'] else 0)
    p = case['poll']
    gap = int(10 * p * 1e6)
    enc = ST.Encoded()
    burst_bounds = []
    for b in case['bursts']:
        rng = random.Random(b['seed'])
        start = len(enc.stream)
        items = []
        if b['kind'] == 'split_msg':
            n = b['size']
            payload = b'\xcd' * n
            ST.emit(enc, 2, payload[:n // 2], fin=0)
            ST.encode_items([{'kind': b.get('ctl', 'ping'),
                              'hex': b'mid-message'.hex()}], enc)
            burst_bounds.append((start, len(enc.stream)))
            start2 = len(enc.stream)
            ST.emit(enc, 0, payload[n // 2:], fin=1)
            enc.expected.append(('binary', payload))
            enc.expected_ends.append(len(enc.stream))
            burst_bounds.append((start2, len(enc.stream)))
            enc.probes['ctl_inside_unfinished_message'] += 1
            continue
        if b['kind'] == 'exact':
            for k in range(b['n']):
                items.append({'kind': 'binary', 'hex': (bytes([k % 251]) *
                                                        b['size']).hex(),
                              'cuts': []})
            b = dict(b, pings=max(1, b.get('pings', 0)), last=None)
        if b['kind'] == 'small_frames':
            for k in range(b['n']):
                items.append({'kind': 'binary', 'hex': (bytes([k % 251]) *
                                                        b['size']).hex(),
                              'cuts': []})
        elif b['kind'] == 'one_big':
            n = b['size']
            cuts = sorted(rng.randrange(0, n + 1)
                          for _ in range(b.get('frags', 1) - 1))
            items.append({'kind': 'binary', 'hex': (b'\xab' * n).hex(),
                          'cuts': cuts, 'lenforms': [None] * (len(cuts) + 1),
                          'inner': [[] for _ in cuts]})
        else:
            for k in range(b['n']):
                if k % 3 == 0:
                    items.append({'kind': 'text', 'text': u'tx€' * (b['size'] // 5),
                                  'cuts': []})
                else:
                    items.append({'kind': 'binary',
                                  'hex': (b'm' * b['size']).hex(), 'cuts': []})
        last = b.get('last')
        if last == 'empty_text':
            items.append({'kind': 'text', 'text': u'', 'cuts': []})
        elif last == 'empty_fin_cont':
            items.append({'kind': 'text', 'text': u'tail€', 'cuts': [7],
                          'lenforms': [None, None], 'inner': [[]]})
        elif last == 'empty_binary':
            items.append({'kind': 'binary', 'hex': '', 'cuts': []})
        elif last == 'empty_bin_cont':
            items.append({'kind': 'binary', 'hex': '0102', 'cuts': [2],
                          'lenforms': [None, None], 'inner': [[]]})
        elif last == 'empty_ping':
            items.append({'kind': 'ping', 'hex': ''})
        nfixed = 1 if last else 0
        for _ in range(b.get('pings', 0)):
            items.insert(rng.randrange(len(items) + 1 - nfixed),
                         {'kind': 'ping', 'hex': bytes([rng.randrange(256)
                                                        for _ in range(rng.choice([5, 5, 0, 1, 124, 125]))]).hex()})
        if b['kind'] == 'exact':
            tmp = ST.encode_items(items)
            rest = b['mult'] * 65536 - len(tmp.stream)
            # one filler frame in front makes the total exact
            fill = rest - 10 if rest - 10 >= 65536 else rest - 4
            assert 126 <= fill
            items.insert(0, {'kind': 'binary', 'hex': (b'\xee' * fill).hex(),
                             'cuts': []})
            enc.probes['burst_exact_multiple_of_buffer'] += 1
        ST.encode_items(items, enc)
        if b['kind'] == 'exact':
            assert (len(enc.stream) - start) % 65536 == 0, len(enc.stream)
        burst_bounds.append((start, len(enc.stream)))
    # server steps: reply, then each burst's chunks at one instant
    # unrelated (but legal) headers in the 101, e.g. a Content-Length of 0
    reply = S.reply_tmpl([[], [], [b'Content-Length: 0'],
                          [b'content-length:0', b'Server: x']][
        case['bursts'][0]['seed'] % 4] if case['bursts'] else [])
    steps = [{'op': 'await_request'}]
    data = bytes(enc.stream)

    def chunks_of(blob, rng):
        if case['tls']:
            rec = case['record']
            return [blob[i:i + rec] for i in range(0, len(blob), rec)]
        if case['segment'] == 'one':
            return [blob]
        if case['segment'] == 'tail1':
            return [blob[:-1], blob[-1:]] if len(blob) > 1 else [blob]
        if case['segment'] == 'mss':
            return [blob[i:i + 1460] for i in range(0, len(blob), 1460)]
        out = []
        i = 0
        while i < len(blob):
            n = rng.choice([1, 100, 1460, 9000, 65536, 70000])
            out.append(blob[i:i + n])
            i += n
        return out

    first = True
    for (a, b_) in burst_bounds:
        blob = data[a:b_]
        if first and case.get('reply_glued'):
            steps.append({'op': 'reply', 'tmpl': (reply + blob[:0]).hex(),
                          'accept': 'ok'})
            parts = chunks_of(blob, rng0)
            for j, part in enumerate(parts):
                steps.append(S.send(part, after=0))
        else:
            if first:
                steps.append({'op': 'reply', 'tmpl': reply.hex(),
                              'accept': 'ok'})
            parts = chunks_of(blob, rng0)
            late = 50001 if case['segment'] == 'tail1' and not case['tls'] \
                else 0
            for j, part in enumerate(parts):
                steps.append(S.send(part, after=gap if j == 0 else (
                    late if j == len(parts) - 1 else 0)))
        first = False
    if first:
        steps.append({'op': 'reply', 'tmpl': reply.hex(), 'accept': 'ok'})
    steps.append(S.eof(after=gap))
    conn = {'server': steps}
    if case.get('readahead'):
        conn['tls_readahead'] = True
    if case.get('short'):
        # keep the number of reads bounded (the budget is about stalls, not
        # about how slowly a 1 MiB burst can be sipped)
        short = max(case['short'], len(data) // 4000 + 1)
        conn['short_reads'] = {'*': short}
    px = bool(case.get('via_https_proxy')) and case['tls']
    if px:
        ok = b'HTTP/1.1 200 Connection established\r\n\r\n'
        conn['proxy'] = {'steps': [{'op': 'await_request', 'nth': 1},
                                   {'op': 'reply', 'tmpl': ok.hex(),
                                    'cuts': [], 'gaps': [0]}],
                         'then_server': True}
        steps[0] = dict(steps[0], nth=2)
    sc = {'url': ('wss' if case['tls'] and not px else 'ws') +
          '://example.test/',
          'ws': {'proxies': {'http': 'https://proxy.test:8443'}} if px
          else {},
          'connect': {'poll': p, 'ping_rate': 0,
                      'auto_pong': case.get('auto_pong', True)},
          'conns': [conn], 'max_polls': 400000, 'max_events': 100000}
    if case.get('slow_ping_handler'):
        sc['app'] = [{'when': {'name': 'ping', 'nth': 0},
                      'do': [{'op': 'sleep', 'us': int(1.2 * p * 1e6) + 7}]}]
    return sc, enc, ST.reply_len(reply) + (len(ok) if px else 0), burst_bounds


def _execute_threaded(case):
    from . import _threads as T
    res = Result()
    sc, tr, sched = T.run(case)
    w = tr.world
    res.stats.update(w.stats)
    res.sim_us = w.now
    res.digest = T.digest(tr, sched)
    if sched.error is not None:
        raise RuntimeError('ThreadSim harness error: %r' % (sched.error,))
    base = case.get('name')
    if tr.hang:
        res.bad('C18/threaded/hang', tr.hang)
    if tr.escaped:
        res.bad('C18/threaded/escaped', '%s %s' % tr.escaped)
    st = w.socks[-1]
    wire = oracle.Wire(st)
    pings = [e for e in tr.events if e.name == 'ping']
    res.stats['probe:threaded'] += 1
    if pings and not wire.incomplete:
        e = pings[0]
        polls = [o for o in w.ops if o[2] == 'poll' and o[0] > e.seq]
        # end offset -> seq of the write that put that byte on the wire
        ends = []
        pos = 0
        for seq, now, data in st.out:
            pos += len(data)
            ends.append((pos, seq, now))
        pong = [f for f in wire.frames if f.opcode == peer.OP_PONG]
        closing = any(f.opcode == peer.OP_CLOSE for f in wire.frames)
        if not pong:
            if not closing:
                res.bad('C18/threaded/pong_missing',
                        'Ping received at t=%d, no Pong written | %s' % (
                            e.t, T.site_signature(sched)))
        else:
            wseq = next(sq for (p_, sq, _) in ends if p_ >= pong[0].end)
            wnow = next(nw for (p_, _, nw) in ends if p_ >= pong[0].end)
            if polls and wseq > polls[0][0]:
                res.bad('C18/threaded/pong_after_next_wait',
                        'the event loop went back to waiting (t=%d) before '
                        'the Pong for the Ping of t=%d was written (t=%d) | '
                        '%s' % (polls[0][1], e.t, wnow,
                                T.site_signature(sched)))
            else:
                res.stats['probe:pong_before_next_wait'] += 1
    res.nontrivial = bool(pings)
    res.sig = 'thr|%s|%s' % (base, T.site_signature(sched))
    res.sample = {'base': base, 'schedule': case.get('schedule'),
                  'switch_sites': T.site_signature(sched),
                  'wire': [f.summary()['op'] for f in wire.frames]}
    return res


def execute(case):
    if case.get('threaded'):
        return _execute_threaded(case)
    if 'pong_fault' in case:
        from . import C01
        r = C01.execute(case['pong_fault'])
        r.violations = [('C18/pong_fault/' + k.split('/', 1)[1], m)
                        for k, m in r.violations]
        r.stats['probe:pong_write_failed_mid_read'] += 1
        return r
    res = Result()
    sc, enc, rlen, bounds = build(case)
    tr = netsim.run(sc)
    w = tr.world
    res.stats.update(w.stats)
    res.sim_us = w.now
    res.digest = tr.digest()
    names = tr.names()
    st = w.socks[-1]
    tag = 'tls' if case['tls'] else 'plain'
    res.stats['probe:' + tag] += 1
    for k, v in enc.probes.items():
        if k in ('ctl_inside_unfinished_message',
                 'burst_exact_multiple_of_buffer'):
            res.stats['probe:' + k] += v
    for k, m in oracle.trace_sanity(tr):
        if k in ('hang', 'escaped'):
            res.bad('C18/%s/%s' % (tag, k), m)
    # Ready in the loop cycle in which the end of the reply became available
    ready = [e for e in tr.events if e.name == 'ready']
    t_reply = next((t for (_, t, cum) in st.avail if cum >= rlen), None)
    if ready and t_reply is not None and ready[0].t != t_reply:
        res.bad('C18/%s/ready_late' % tag,
                'the upgrade reply was complete at t=%d us, Ready was yielded '
                'at t=%d us' % (t_reply, ready[0].t))
    msgs = oracle.msg_events(tr)
    got = [oracle.payload_of(e.snap) for e in msgs]
    if got != enc.expected:
        res.bad('C18/%s/events' % tag, 'expected %d message events, got %d' % (
            len(enc.expected), len(got)))
    else:
        avail = st.avail            # (seq, time, cumulative bytes)

        def avail_time(off):
            lo, hi = 0, len(avail) - 1
            while lo < hi:
                mid = (lo + hi) // 2
                if avail[mid][2] >= off:
                    hi = mid
                else:
                    lo = mid + 1
            return avail[lo][1]

        slow = bool(case.get('slow_ping_handler'))
        if slow:
            res.stats['probe:slow_ping_handler'] += 1
        for e, end in zip(msgs, enc.expected_ends):
            at = avail_time(rlen + end)
            if e.t != at and not slow:
                res.bad('C18/%s/late_delivery' % tag,
                        '%s event #%d yielded at t=%d us; its last byte was '
                        'available at t=%d us (poll=%s s, short=%r, record=%r)'
                        % (e.name, e.index, e.t, at, case['poll'],
                           case.get('short'), case['record'] if case['tls']
                           else None))
                break
        # automatic pongs at the availability time of their ping
        wire = oracle.Wire(st, 2 if case.get('via_https_proxy') and case['tls'] else 1)
        times = {}
        pos = 0
        for seq, now, data in st.out:
            times[pos] = now
            pos += len(data)
        pongs = [f for f in wire.frames if f.opcode == peer.OP_PONG]
        ping_ends = [end for ex, end in zip(enc.expected, enc.expected_ends)
                     if ex[0] == 'ping']
        if len(pongs) != len(ping_ends):
            res.bad('C18/%s/pong_count' % tag, '%d pings, %d pongs' % (
                len(ping_ends), len(pongs)))
        else:
            for f, end in zip(pongs, ping_ends):
                if slow:
                    break
                if times.get(f.start) != avail_time(rlen + end):
                    res.bad('C18/%s/late_pong' % tag,
                            'Pong written at %r, Ping available at %d' % (
                                times.get(f.start), avail_time(rlen + end)))
                    break
            if pongs:
                res.stats['probe:ping_in_burst'] += 1
    for a, b in bounds:
        if b - a > 65536:
            res.stats['probe:burst_over_64k'] += 1
        if b - a >= (1 << 20):
            res.stats['probe:message_1mib'] += 1
    if any(b.get('n', 0) >= 100 for b in case['bursts']):
        res.stats['probe:many_frames_one_read'] += 1
    if case.get('readahead'):
        res.stats['probe:tls_readahead'] += 1
    if any(b.get('last') for b in case['bursts']):
        res.stats['probe:burst_ends_with_empty_frame'] += 1
    if case['tls'] and any(b['kind'] != 'small_frames' and
                           b['size'] > case['record'] for b in case['bursts']):
        res.stats['probe:frame_spans_records'] += 1
    res.nontrivial = 'ready' in names and bool(case['bursts'])
    res.sig = '%s|%s|%s|%s|%s' % (
        tag + ('+ra' if case.get('readahead') else ''),
        [(b['kind'], b.get('n'), b.get('size'), b.get('pings'), b.get('last'))
              for b in case['bursts']], case['record'], case['segment'],
        case.get('short'))
    res.sample = {'transport': tag, 'bursts': case['bursts'],
                  'record': case['record'], 'segment': case['segment'],
                  'short_read': case.get('short'), 'poll': case['poll'],
                  'events': len(tr.events), 'reads': len(st.delivered)}
    return res
