"""C18 - available data is always drained without waiting for more traffic."""
import random

from .. import netsim, oracle, peer, scen as S, streams as ST
from ..runner import Result

ID = 'C18'
LEVEL = 'exploration'
RULE = ('arrival patterns on plain and TLS-model transports: bursts of 1 / 2 '
        '/ 100 / 5000 small frames in one segment, single messages of 64 KiB-1 '
        '/ 64 KiB / 64 KiB+1 / 200 KiB / 1 MiB, TLS records of up to 16384 '
        'bytes holding many frames and frames spanning records, Pings inside '
        'bursts; after each burst the peer is silent for 10 x poll; fault: '
        'short reads (recv_into returns fewer bytes than requested although '
        'more are buffered; on TLS the rest is visible only through '
        'pending()).  Oracle: every message event is yielded, and every '
        'automatic Pong written, at exactly the virtual time at which its '
        'last byte became available.  Non-trivial = >= 1 burst after Ready; '
        'distinct = distinct (transport, burst shapes, record sizes, short-'
        'read size) signatures.  TLS is a record/pending model, not OpenSSL')
SHRINK_LISTS = [('bursts',)]
EXPECTED_PROBES = ['tls', 'plain', 'burst_over_64k', 'many_frames_one_read',
                   'frame_spans_records', 'tls_pending_nonzero',
                   'ping_in_burst', 'message_1mib', 'tls_readahead',
                   'burst_ends_with_empty_frame']
ASSUMPTIONS = ['the "real loopback TCP and TLS runs" clause of the property '
               'is runtime observation of uncontrolled executions and is not '
               'part of this verdict (DESIGN.md section 10)']


def plan(tier):
    return [('seeded', 1200 if tier == 'quick' else 40000),
            ('huge', 40 if tier == 'quick' else 1500)]


def make_case(family, i, rng, tier):
    tls = rng.random() < 0.5
    bursts = []
    for _ in range(rng.choice([1, 2, 3])):
        kind = rng.choice(['small_frames', 'small_frames', 'one_big', 'mixed'])
        b = {'kind': kind}
        if kind == 'small_frames':
            b['n'] = rng.choice([1, 2, 100, 100, 1000] +
                                ([5000] if family == 'huge' else []))
            b['size'] = rng.choice([0, 1, 10, 125, 126])
        elif kind == 'one_big':
            b['size'] = rng.choice([65535, 65536, 65537, 200000, 16384, 16385,
                                    32768] + ([1 << 20] if family == 'huge'
                                              else []))
            b['frags'] = rng.choice([1, 1, 3])
        else:
            b['n'] = rng.choice([10, 60])
            b['size'] = rng.choice([100, 3000, 17000])
        b['pings'] = rng.choice([0, 0, 1, 5])
        # what ends the burst: frames that carry no payload byte are the
        # ones a parser can leave undelivered until more traffic arrives
        b['last'] = rng.choice([None, None, 'empty_text', 'empty_fin_cont',
                                'empty_binary', 'empty_ping',
                                'empty_bin_cont'])
        b['seed'] = rng.getrandbits(32)
        bursts.append(b)
    case = {'tls': tls, 'bursts': bursts, 'poll': rng.choice([5, 1, 0.2]),
            'record': rng.choice([16384, 16384, 4096, 1000, 16383]),
            'segment': rng.choice(['one', 'mss', 'seeded']),
            'short': rng.choice([None, None, 1, 7, 1000, 16000, 65535]),
            'reply_glued': rng.random() < 0.3,
            'readahead': tls and rng.random() < 0.35,
            'auto_pong': True}
    return case


def build(case):
    rng0 = random.Random(case['bursts'][0]['seed'] if case['bursts'] else 0)
    p = case['poll']
    gap = int(10 * p * 1e6)
    enc = ST.Encoded()
    burst_bounds = []
    for b in case['bursts']:
        rng = random.Random(b['seed'])
        start = len(enc.stream)
        items = []
        if b['kind'] == 'small_frames':
            for k in range(b['n']):
                items.append({'kind': 'binary', 'hex': (bytes([k % 251]) *
                                                        b['size']).hex(),
                              'cuts': []})
        elif b['kind'] == 'one_big':
            n = b['size']
            cuts = sorted(rng.randrange(0, n + 1)
                          for _ in range(b.get('frags', 1) - 1))
            items.append({'kind': 'binary', 'hex': (b'\xab' * n).hex(),
                          'cuts': cuts, 'lenforms': [None] * (len(cuts) + 1),
                          'inner': [[] for _ in cuts]})
        else:
            for k in range(b['n']):
                if k % 3 == 0:
                    items.append({'kind': 'text', 'text': u'tx€' * (b['size'] // 5),
                                  'cuts': []})
                else:
                    items.append({'kind': 'binary',
                                  'hex': (b'm' * b['size']).hex(), 'cuts': []})
        last = b.get('last')
        if last == 'empty_text':
            items.append({'kind': 'text', 'text': u'', 'cuts': []})
        elif last == 'empty_fin_cont':
            items.append({'kind': 'text', 'text': u'tail€', 'cuts': [7],
                          'lenforms': [None, None], 'inner': [[]]})
        elif last == 'empty_binary':
            items.append({'kind': 'binary', 'hex': '', 'cuts': []})
        elif last == 'empty_bin_cont':
            items.append({'kind': 'binary', 'hex': '0102', 'cuts': [2],
                          'lenforms': [None, None], 'inner': [[]]})
        elif last == 'empty_ping':
            items.append({'kind': 'ping', 'hex': ''})
        nfixed = 1 if last else 0
        for _ in range(b.get('pings', 0)):
            items.insert(rng.randrange(len(items) + 1 - nfixed),
                         {'kind': 'ping', 'hex': bytes([rng.randrange(256)
                                                        for _ in range(5)]).hex()})
        ST.encode_items(items, enc)
        burst_bounds.append((start, len(enc.stream)))
    # server steps: reply, then each burst's chunks at one instant
    reply = S.reply_tmpl()
    steps = [{'op': 'await_request'}]
    data = bytes(enc.stream)

    def chunks_of(blob, rng):
        if case['tls']:
            rec = case['record']
            return [blob[i:i + rec] for i in range(0, len(blob), rec)]
        if case['segment'] == 'one':
            return [blob]
        if case['segment'] == 'mss':
            return [blob[i:i + 1460] for i in range(0, len(blob), 1460)]
        out = []
        i = 0
        while i < len(blob):
            n = rng.choice([1, 100, 1460, 9000, 65536, 70000])
            out.append(blob[i:i + n])
            i += n
        return out

    first = True
    for (a, b_) in burst_bounds:
        blob = data[a:b_]
        if first and case.get('reply_glued'):
            steps.append({'op': 'reply', 'tmpl': (reply + blob[:0]).hex(),
                          'accept': 'ok'})
            parts = chunks_of(blob, rng0)
            for j, part in enumerate(parts):
                steps.append(S.send(part, after=0))
        else:
            if first:
                steps.append({'op': 'reply', 'tmpl': reply.hex(),
                              'accept': 'ok'})
            parts = chunks_of(blob, rng0)
            for j, part in enumerate(parts):
                steps.append(S.send(part, after=gap if j == 0 else 0))
        first = False
    if first:
        steps.append({'op': 'reply', 'tmpl': reply.hex(), 'accept': 'ok'})
    steps.append(S.eof(after=gap))
    conn = {'server': steps}
    if case.get('readahead'):
        conn['tls_readahead'] = True
    if case.get('short'):
        # keep the number of reads bounded (the budget is about stalls, not
        # about how slowly a 1 MiB burst can be sipped)
        short = max(case['short'], len(data) // 4000 + 1)
        conn['short_reads'] = {'*': short}
    sc = {'url': ('wss' if case['tls'] else 'ws') + '://example.test/',
          'connect': {'poll': p, 'ping_rate': 0,
                      'auto_pong': case.get('auto_pong', True)},
          'conns': [conn], 'max_polls': 400000, 'max_events': 100000}
    return sc, enc, ST.reply_len(reply), burst_bounds


def execute(case):
    res = Result()
    sc, enc, rlen, bounds = build(case)
    tr = netsim.run(sc)
    w = tr.world
    res.stats.update(w.stats)
    res.sim_us = w.now
    res.digest = tr.digest()
    names = tr.names()
    st = w.socks[-1]
    tag = 'tls' if case['tls'] else 'plain'
    res.stats['probe:' + tag] += 1
    for k, m in oracle.trace_sanity(tr):
        if k in ('hang', 'escaped'):
            res.bad('C18/%s/%s' % (tag, k), m)
    msgs = oracle.msg_events(tr)
    got = [oracle.payload_of(e.snap) for e in msgs]
    if got != enc.expected:
        res.bad('C18/%s/events' % tag, 'expected %d message events, got %d' % (
            len(enc.expected), len(got)))
    else:
        avail = st.avail            # (seq, time, cumulative bytes)

        def avail_time(off):
            lo, hi = 0, len(avail) - 1
            while lo < hi:
                mid = (lo + hi) // 2
                if avail[mid][2] >= off:
                    hi = mid
                else:
                    lo = mid + 1
            return avail[lo][1]

        for e, end in zip(msgs, enc.expected_ends):
            at = avail_time(rlen + end)
            if e.t != at:
                res.bad('C18/%s/late_delivery' % tag,
                        '%s event #%d yielded at t=%d us; its last byte was '
                        'available at t=%d us (poll=%s s, short=%r, record=%r)'
                        % (e.name, e.index, e.t, at, case['poll'],
                           case.get('short'), case['record'] if case['tls']
                           else None))
                break
        # automatic pongs at the availability time of their ping
        wire = oracle.Wire(st)
        times = {}
        pos = 0
        for seq, now, data in st.out:
            times[pos] = now
            pos += len(data)
        pongs = [f for f in wire.frames if f.opcode == peer.OP_PONG]
        ping_ends = [end for ex, end in zip(enc.expected, enc.expected_ends)
                     if ex[0] == 'ping']
        if len(pongs) != len(ping_ends):
            res.bad('C18/%s/pong_count' % tag, '%d pings, %d pongs' % (
                len(ping_ends), len(pongs)))
        else:
            for f, end in zip(pongs, ping_ends):
                if times.get(f.start) != avail_time(rlen + end):
                    res.bad('C18/%s/late_pong' % tag,
                            'Pong written at %r, Ping available at %d' % (
                                times.get(f.start), avail_time(rlen + end)))
                    break
            if pongs:
                res.stats['probe:ping_in_burst'] += 1
    for a, b in bounds:
        if b - a > 65536:
            res.stats['probe:burst_over_64k'] += 1
        if b - a >= (1 << 20):
            res.stats['probe:message_1mib'] += 1
    if any(b.get('n', 0) >= 100 for b in case['bursts']):
        res.stats['probe:many_frames_one_read'] += 1
    if case.get('readahead'):
        res.stats['probe:tls_readahead'] += 1
    if any(b.get('last') for b in case['bursts']):
        res.stats['probe:burst_ends_with_empty_frame'] += 1
    if case['tls'] and any(b['kind'] != 'small_frames' and
                           b['size'] > case['record'] for b in case['bursts']):
        res.stats['probe:frame_spans_records'] += 1
    res.nontrivial = 'ready' in names and bool(case['bursts'])
    res.sig = '%s|%s|%s|%s|%s' % (
        tag + ('+ra' if case.get('readahead') else ''),
        [(b['kind'], b.get('n'), b.get('size'), b.get('pings'), b.get('last'))
              for b in case['bursts']], case['record'], case['segment'],
        case.get('short'))
    res.sample = {'transport': tag, 'bursts': case['bursts'],
                  'record': case['record'], 'segment': case['segment'],
                  'short_read': case.get('short'), 'poll': case['poll'],
                  'events': len(tr.events), 'reads': len(st.delivered)}
    return res
