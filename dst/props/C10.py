"""C10 - Ready is granted only for a correct upgrade reply to a well-formed
request."""
import base64
import random

from .. import netsim, oracle, peer, scen as S, streams as ST
from ..runner import Result

ID = 'C10'
LEVEL = 'exploration'
RULE = ('seeded URL shapes (ws/wss, default / explicit / cross ports, path, '
        'query, mixed-case host), custom headers, protocols, compress, agent; '
        'the request the client wrote is parsed by an independent strict HTTP '
        'parser and its key compared with the 16 bytes the simulator handed '
        'out for that attempt; the reply is built from the key in the request '
        'with seeded header order / case / whitespace / obsolete folding / '
        'unrelated and duplicated unrelated headers / header-block sizes '
        'around 16384 / segmentation / frames in the same read, and one of: '
        'correct accept, 9 wrong-accept variants (incl. digest of the '
        'previous attempt\'s key on reconnect chains, letter-case variants), '
        'every status class, missing or foreign Upgrade, unterminated block. '
        'Oracle: Ready iff (101, Upgrade: websocket, exact accept, block <= '
        '16 KiB); ProtocolError iff block > 16 KiB; otherwise Rejected; no '
        'message event without Ready.  Non-trivial = request parsed and a '
        'reply delivered; distinct = distinct (url shape, reply shape, '
        'verdict) signatures')
RULE += (' '
         'Custom headers include the same name twice and names differing in '
         'case only; rejected replies include Upgrade values with braces; '
         'URL, agent and protocols with non-ASCII characters.')
SHRINK_LISTS = [('attempts',), ('headers',), ('protocols',), ('cuts',)]
EXPECTED_PROBES = ['must_ready', 'must_reject', 'must_protocol_error',
                   'folded_header', 'block_exactly_16384', 'block_16385',
                   'reconnect_chain', 'prev_key_accept', 'case_variant_accept',
                   'frames_in_reply_read', 'protocol_negotiated',
                   'ext_spoiled', 'dup_spoiled',
                   'extension_negotiated']
ASSUMPTIONS = ['IPv6 literal hosts, duplicated Upgrade/Accept headers and '
               'status tokens such as +101 are not generated']

ACCEPT_BAD = ['other_key', 'prev_key', 'truncated', 'extended', 'prefix20',
              'swapcase', 'lower', 'upper', 'urlsafe', 'empty', 'reversed',
              'missing', 'nbsp_suffix', 'nbsp_prefix', 'nel_suffix',
              'vt_suffix', 'ff_prefix', 'us_suffix']
MARK = b'MARKER-AFTER-REPLY'


def plan(tier):
    return [('seeded', 16000 if tier == 'quick' else 350000),
            ('size_edge', 200 if tier == 'quick' else 4000)]


def _url(rng):
    secure = rng.random() < 0.4
    host = rng.choice(['example.test', 'Example.TEST', 'a.b-c.example.test',
                       'localhost', '10.1.2.3'])
    port = rng.choice([None, None, 80, 443, 8080, 65535, 1])
    path = rng.choice(['', '', '/', '/chat', '/a/b/c.d', '/p%20q', '/a//b/',
                       u'/caf\u00e9', u'/\u4e2d\u6587'])
    query = rng.choice(['', '', 'x=1', 'a=1&b=%2F', 'q'])
    # (userinfo is legal in a ws URL; it is no part of the Host header)
    userinfo = rng.choice([''] * 5 + ['alice@', 'alice:s3cret@'])
    url = ('wss' if secure else 'ws') + '://' + userinfo + host
    if port is not None:
        url += ':%d' % port
    url += path
    if query:
        url += '?' + query
    return url


def _attempt(rng, first, size_edge=False):
    r = rng.random()
    a = {'status': 101, 'upgrade': 'websocket', 'accept': 'ok'}
    if size_edge:
        a['block'] = rng.choice([16383, 16384, 16385, 16386, 17000, 16000])
        a['terminated'] = rng.random() < 0.7
        if rng.random() < 0.2:
            a['status'] = 200
    elif r < 0.4:
        pass
    elif r < 0.6:
        a['accept'] = rng.choice(ACCEPT_BAD)
        if a['accept'] == 'prev_key' and first:
            a['accept'] = 'other_key'
    elif r < 0.75:
        a['status'] = rng.choice([100, 102, 200, 201, 204, 301, 302, 400, 401,
                                  403, 404, 426, 500, 503, 599,
                                  rng.randrange(100, 600)])
        if a['status'] == 101:
            a['status'] = 200
    elif r < 0.85:
        a['upgrade'] = rng.choice([None, 'h2c', 'websocket2', 'web socket',
                                   'websocke', '', '{websocket}', '{}', '{0}',
                                   'websocket}', '{', u'websocket\x85',
                                   u'\xa0websocket', u'websocket\xa0'])
    elif r < 0.92:
        a['block'] = rng.choice([16383, 16384, 16385, 20000])
        a['terminated'] = rng.random() < 0.6
    else:
        a['terminated'] = False      # short unterminated block, then EOF
    a['upgrade_case'] = rng.choice(['websocket', 'WebSocket', 'WEBSOCKET'])
    a['reason'] = rng.choice(['Switching Protocols', 'Web Socket Protocol '
                              'Handshake', '', 'OK'])
    a['shape_seed'] = rng.getrandbits(32)
    a['fold'] = rng.random() < 0.25
    a['frames_same_read'] = rng.random() < 0.5
    a['proto'] = rng.random() < 0.3
    a['ext'] = rng.random() < 0.5
    r2 = rng.random()
    if r2 < 0.08:
        # an extension answer no client may accept (RFC 7692 7.1: the client
        # MUST fail the connection): window sizes out of range / not numbers,
        # or an extension that was never offered
        a['ext_bad'] = rng.choice([
            'permessage-deflate; client_max_window_bits=16',
            'permessage-deflate; server_max_window_bits=7',
            'permessage-deflate; client_max_window_bits=abc',
            'permessage-deflate; server_max_window_bits=0',
            'permessage-deflate; server_max_window_bits="16"',
            'permessage-deflate; client_no_context_takeover; '
            'client_max_window_bits=-9'])
    elif r2 < 0.2:
        # a header of the verdict given twice, in different letter case: the
        # two lines are one field (RFC 7230 3.2.2), whatever their spelling
        a['dup'] = rng.choice(['upgrade_bad_first', 'upgrade_bad_last',
                               'accept_bad_first', 'accept_bad_last',
                               'proto_two'])
    a.update(ST.seg_fields(rng))
    a['gaps'] = [rng.choice([0, 0, 1000]) for _ in range(3)]
    return a


def make_case(family, i, rng, tier):
    case = {'url': _url(rng)}
    case['protocols'] = rng.choice([[], [], ['chat'], ['chat', 'superchat'],
                                    ['v1.x-y']])
    case['headers'] = rng.choice([[], [], [['X-Custom', 'abc']],
                                  [['Authorization', 'Bearer a.b=='],
                                   ['Cookie', 'a=b; c=d']],
                                  [['Origin', 'http://example.test']],
                                  # the same name twice, and names that
                                  # differ in case only
                                  [['X-Dup', 'one'], ['X-Dup', 'two']],
                                  [['Cookie', 'a=1'], ['X-Other', 'z'],
                                   ['cookie', 'b=2']]])
    if rng.random() < 0.3:
        # another WebSocket object of the process has custom headers of its
        # own (added before this one is even constructed)
        case['other_headers'] = rng.choice([
            [['X-Foreign', 'one']],
            [['Authorization', 'Bearer of-the-other-object'],
             ['Cookie', 'other=1']]])
    case['compress'] = rng.random() < 0.4
    case['agent'] = rng.choice([None, None, 'TestAgent/1.0 (x; y)',
                                u'Agent \u20ac \u0416'])
    n = rng.choice([1, 1, 1, 2, 3, 5]) if family == 'seeded' else 1
    case['attempts'] = [_attempt(rng, k == 0, family == 'size_edge')
                        for k in range(n)]
    return case


def _verdict(a, block_len, spoiled=False):
    """-> 'ready' | 'protocol_error' | 'rejected' | 'none'"""
    if block_len > 16384:
        return 'protocol_error'
    if a.get('terminated', True) is False:
        return 'none'
    if a['status'] == 101 and a.get('upgrade') == 'websocket' and \
            a['accept'] == 'ok' and not spoiled:
        return 'ready'
    return 'rejected'


def _reply(a, case):
    rng = random.Random(a.get('shape_seed', 0))

    def name(n):
        mode = rng.choice(['asis', 'lower', 'upper', 'mixed'])
        if mode == 'lower':
            return n.lower()
        if mode == 'upper':
            return n.upper()
        if mode == 'mixed':
            return ''.join(c.upper() if rng.random() < 0.5 else c.lower()
                           for c in n)
        return n

    def line(n, v):
        sp1 = rng.choice([' ', '', '  ', '\t'])
        sp2 = rng.choice(['', '', ' ', '  '])
        if a.get('fold') and rng.random() < 0.5 and v:
            stats['folded'] = True
            return '%s:\r\n%s%s%s' % (name(n), rng.choice([' ', '\t', '  ']),
                                      v, sp2)
        return '%s:%s%s%s' % (name(n), sp1, v, sp2)

    stats = {}
    reason = a.get('reason', 'Switching Protocols')
    status_line = 'HTTP/1.1 %d%s' % (a['status'],
                                     (' ' + reason) if reason else '')
    hdrs = []
    up = a.get('upgrade')
    if up is not None:
        v = a.get('upgrade_case', 'websocket') if up == 'websocket' else up
        hdrs.append(line('Upgrade', v))
    hdrs.append(line('Connection', 'Upgrade'))
    if a['accept'] != 'missing':
        hdrs.append(line('Sec-WebSocket-Accept', '@@ACCEPT@@'))
    proto = None
    if a.get('proto') and case.get('protocols'):
        proto = case['protocols'][0]
        hdrs.append(line('Sec-WebSocket-Protocol', proto))
    pinned = []
    dup = a.get('dup')
    if dup and dup.startswith('upgrade') and up == 'websocket':
        # 'websocket' and 'h2c' under names that differ in case only: the
        # field value is 'h2c, websocket' (or the reverse), not 'websocket'
        hdrs = [h for h in hdrs if not h.lower().startswith('upgrade')]
        if dup.endswith('first'):
            pair = [('upgrade', 'h2c'), ('Upgrade', 'websocket')]
        else:
            pair = [('Upgrade', 'websocket'), ('uPGRADE', 'h2c')]
        pinned = ['%s: %s' % p for p in pair]
        stats['spoiled'] = True
    elif dup and dup.startswith('accept') and a['accept'] == 'ok':
        hdrs = [h for h in hdrs if not h.lower().startswith('sec-websocket-a')]
        good = 'Sec-WebSocket-Accept: @@ACCEPT@@'
        bad = 'sec-websocket-accept: AAAAAAAAAAAAAAAAAAAAAAAAAAA='
        pinned = [bad, good] if dup.endswith('first') else [good, bad]
        stats['spoiled'] = True
    elif dup == 'proto_two' and proto and len(case['protocols']) > 1:
        hdrs = [h for h in hdrs if not h.lower().startswith('sec-websocket-p')]
        pinned = ['Sec-WebSocket-Protocol: %s' % case['protocols'][0],
                  'SEC-WEBSOCKET-PROTOCOL: %s' % case['protocols'][1]]
        # (an answer no server should give; what Ready must then report is
        # not laid down - only that neither name is silently lost)
        proto = [case['protocols'][0], case['protocols'][1]]
    ext = False
    if a.get('ext_bad') and case.get('compress'):
        hdrs.append(line('Sec-WebSocket-Extensions', a['ext_bad']))
        stats['spoiled'] = True
    elif a.get('ext_bad'):
        # nothing was offered: any extension in the answer is unsolicited
        hdrs.append(line('Sec-WebSocket-Extensions', 'permessage-deflate'))
        stats['spoiled'] = True
    elif a.get('ext') and case.get('compress'):
        ext = True
        # parameters in every legal spelling (token or quoted-string values,
        # blanks around '=' and ';')
        hdrs.append(line('Sec-WebSocket-Extensions', rng.choice([
            'permessage-deflate', 'permessage-deflate',
            'permessage-deflate; server_max_window_bits="15"',
            'permessage-deflate; client_max_window_bits="12"; '
            'server_max_window_bits=10',
            'permessage-deflate;server_no_context_takeover',
            'permessage-deflate ; client_max_window_bits = 9',
            'permessage-deflate; server_max_window_bits="8"; '
            'client_no_context_takeover'])))
    for k in range(rng.choice([0, 0, 1, 3])):
        hdrs.append(line(rng.choice(['Server', 'Date', 'X-Dup', 'Via',
                                     'Set-Cookie', 'Content-Length',
                                     'Content-Type']),
                         rng.choice(['x', 'a, b', 'Tue, 01 Jan 2030', '',
                                     '0'])))
    rng.shuffle(hdrs)
    if pinned:
        # the two lines keep their order; other headers go around them
        k = rng.randrange(len(hdrs) + 1)
        k2 = rng.randrange(k, len(hdrs) + 1)
        hdrs = hdrs[:k] + [pinned[0]] + hdrs[k:k2] + [pinned[1]] + hdrs[k2:]
    text = status_line + '\r\n' + '\r\n'.join(hdrs) + '\r\n'
    data = text.encode('latin-1')
    terminated = a.get('terminated', True)
    if a.get('block'):
        # pad with an unrelated header so that the block (incl. the blank
        # line, accept substituted) has exactly the requested size
        target = a['block']
        final_len = len(data) + (ST.REPLY_LEN_DELTA
                                 if b'@@ACCEPT@@' in data else 0) + 2
        pad = target - final_len - len('X-Pad: \r\n')
        if pad >= 0:
            data += b'X-Pad: ' + b'p' * pad + b'\r\n'
    if terminated:
        data += b'\r\n'
    else:
        data = data[:-2] if not a.get('block') else data
    block_len = len(data) + (ST.REPLY_LEN_DELTA if b'@@ACCEPT@@' in data else 0)
    return data, block_len, proto, ext, stats


def build(case):
    conns = []
    info = []
    for a in case['attempts']:
        data, block_len, proto, ext, stats = _reply(a, case)
        frames = peer.enc_frame(1, MARK) + peer.enc_frame(2, MARK)
        verdict = _verdict(a, block_len, stats.get('spoiled'))
        total = block_len + len(frames)
        enc = ST.Encoded()
        cuts = ST.choose_cuts(a, enc, block_len, total)
        if a.get('frames_same_read'):
            cuts = [c for c in cuts if c != block_len]
        elif block_len not in cuts:
            cuts = sorted(cuts + [block_len])
        mode = a['accept'] if a['accept'] != 'missing' else 'ok'
        step = {'op': 'reply', 'tmpl': (data + frames).hex(), 'accept': mode,
                'cuts': cuts, 'gaps': a.get('gaps') or [0]}
        conns.append({'server': [{'op': 'await_request'}, step,
                                 S.eof(after=500000)]})
        info.append({'verdict': verdict, 'block_len': block_len,
                     'proto': proto, 'ext': ext, 'folded': stats.get('folded'),
                     'spoiled': stats.get('spoiled'),
                     'same_read': not any(c == block_len for c in cuts)})
    ws = {'protocols': case.get('protocols') or None,
          'headers': case.get('headers') or [],
          'compress': bool(case.get('compress'))}
    if case.get('agent'):
        ws['agent'] = case['agent']
    others = []
    if case.get('other_headers'):
        others = [{'url': 'ws://other.test/', 'ws': {
            'headers': case['other_headers']}}]
    sc = {'url': case['url'], 'ws': ws, 'other_objects': others,
          'connect': {'ping_rate': 0, 'poll': 5},
          'conns': conns, 'n_connects': len(conns)}
    # the step index convention used by C02 (single reply step)
    sc['_rlen'] = info[0]['block_len']
    return sc, info


def _check_request(res, case, req_bytes, key_draws, k):
    from six.moves.urllib.parse import urlparse
    r = peer.parse_request(req_bytes)
    tag = 'C10/request/'
    if not r.ok:
        res.bad(tag + 'malformed', '%s in %r' % (r.problems, req_bytes[:200]))
        return None
    u = urlparse(case['url'])
    port = u.port or (443 if u.scheme == 'wss' else 80)
    resource = (u.path or '/') + (('?' + u.query) if u.query else '')
    if r.target != resource.encode('utf-8'):
        res.bad(tag + 'target', 'GET %r for url %s' % (r.target, case['url']))
    host = r.get(b'Host')
    if host is None or host.decode('latin-1').lower() != '%s:%d' % (
            u.hostname.lower(), port):
        res.bad(tag + 'host', 'Host %r for url %s' % (host, case['url']))
    for n, want in ((b'Upgrade', b'websocket'), (b'Connection', b'upgrade'),
                    (b'Sec-WebSocket-Version', b'13')):
        vals = r.get_all(n)
        if len(vals) != 1 or vals[0].lower() != want:
            res.bad(tag + n.decode().lower(), '%r' % (vals,))
    keys = r.get_all(b'Sec-WebSocket-Key')
    key = keys[0] if len(keys) == 1 else None
    if key is None:
        res.bad(tag + 'key_count', '%r' % (keys,))
    else:
        try:
            raw = base64.b64decode(key, validate=True)
        except Exception:
            raw = b''
        if len(raw) != 16:
            res.bad(tag + 'key_not_16_bytes', '%r' % key)
        elif raw not in key_draws:
            res.bad(tag + 'key_not_fresh',
                    'attempt %d: key %r is not made of 16 bytes drawn for '
                    'this attempt' % (k, key))
    for h, v in case.get('headers') or []:
        if v.encode('latin-1') not in r.get_all(h.encode('latin-1')):
            res.bad(tag + 'custom_header_missing', '%s: %s' % (h, v))
    protos = r.get_all(b'Sec-WebSocket-Protocol')
    if case.get('protocols'):
        got = [p.strip() for v in protos for p in v.split(b',')]
        if got != [p.encode() for p in case['protocols']]:
            res.bad(tag + 'protocols', '%r' % (protos,))
    elif protos:
        res.bad(tag + 'protocols_unexpected', '%r' % (protos,))
    exts = r.get_all(b'Sec-WebSocket-Extensions')
    if bool(case.get('compress')) != any(b'permessage-deflate' in e
                                         for e in exts):
        res.bad(tag + 'extension_offer', 'compress=%r offer=%r' % (
            case.get('compress'), exts))
    allowed = {b'host': 1, b'upgrade': 1, b'connection': 1,
               b'sec-websocket-key': 1, b'sec-websocket-version': 1,
               b'user-agent': 1,
               b'sec-websocket-protocol': 1 if case.get('protocols') else 0,
               b'sec-websocket-extensions': 1 if case.get('compress') else 0}
    for h, v in case.get('headers') or []:
        k = h.encode('latin-1').lower()
        allowed[k] = allowed.get(k, 0) + 1
    seen = {}
    for k, v in r.headers:
        seen[k.lower()] = seen.get(k.lower(), 0) + 1
    for k, n in seen.items():
        if n != allowed.get(k, 0):
            res.bad(tag + 'unexpected_header',
                    'header %r appears %d time(s), expected %d; custom '
                    'headers of this WebSocket: %r' % (
                        k, n, allowed.get(k, 0), case.get('headers')))
            break
    if case.get('agent'):
        if r.get(b'User-Agent') != case['agent'].encode('utf-8'):
            res.bad(tag + 'agent', '%r' % r.get(b'User-Agent'))
    return key


def execute(case):
    res = Result()
    sc, info = build(case)
    tr = netsim.run(sc)
    w = tr.world
    res.stats.update(w.stats)
    res.sim_us = w.now
    res.digest = tr.digest()
    attempts = oracle.split_attempts(tr.events)
    if len(attempts) != len(case['attempts']):
        res.bad('C10/attempt_count', '%d attempts, %d event groups' % (
            len(case['attempts']), len(attempts)))
    if len(case['attempts']) > 1:
        res.stats['probe:reconnect_chain'] += 1
    draws = w.urandom_log
    keys = []
    verdicts = []
    for k, (a, inf) in enumerate(zip(case['attempts'], info)):
        if k >= len(attempts) or k >= len(w.socks):
            break
        evs = attempts[k]
        names = [e.name for e in evs if e.name != 'poll']
        st = w.socks[k]
        # 16-byte draws made between the previous request and this one
        lo = w.socks[k - 1].out[0][0] if k and w.socks[k - 1].out else 0
        hi = st.out[0][0] if st.out else 1 << 60
        mine = [d[2] for d in draws if lo < d[0] < hi and len(d[2]) == 16]
        wire = oracle.Wire(st)
        key = None
        if wire.requests:
            key = _check_request(res, case, wire.requests[0], mine, k)
            if wire.frames or wire.incomplete:
                if inf['verdict'] != 'ready':
                    res.bad('C10/request/extra_bytes',
                            'bytes after the request without Ready')
        else:
            res.bad('C10/request/not_terminated', repr(bytes(st.out_bytes)[:80]))
        keys.append(key)
        v = inf['verdict']
        if key is not None and a['accept'] not in ('ok', 'missing', 'prev_key'):
            # a variant that happens to coincide with the right digest (e.g.
            # urlsafe alphabet when the digest has no + or /) is a correct reply
            from ..world import accept_variant
            good = peer.accept_for(key)
            if accept_variant(good, a['accept']) == good:
                a = dict(a, accept='ok')
                v = _verdict(a, inf['block_len'], inf.get('spoiled'))
        verdicts.append(v)
        tag = v
        if inf.get('spoiled'):
            tag = 'ext_' + ('unsolicited' if not case.get('compress') else
                            'bad_parameter') if a.get('ext_bad') else \
                'dup_' + a['dup']
            res.stats['probe:' + tag.split('_')[0] + '_spoiled'] += 1
        elif a['accept'] in ('swapcase', 'lower', 'upper'):
            tag = 'case_variant'
            res.stats['probe:case_variant_accept'] += 1
        elif a['accept'] != 'ok':
            tag = 'accept_' + a['accept']
        if a['accept'] == 'prev_key':
            res.stats['probe:prev_key_accept'] += 1
        if inf['folded']:
            res.stats['probe:folded_header'] += 1
        if inf['block_len'] == 16384:
            res.stats['probe:block_exactly_16384'] += 1
        if inf['block_len'] == 16385:
            res.stats['probe:block_16385'] += 1
        if inf['same_read']:
            res.stats['probe:frames_in_reply_read'] += 1
        has_ready = 'ready' in names
        msgs = [e for e in evs if e.name in ('text', 'binary')]
        if v == 'ready':
            res.stats['probe:must_ready'] += 1
            if not has_ready:
                res.bad('C10/%s/no_ready' % ('folded' if inf['folded']
                                             else 'correct_reply'),
                        'attempt %d: correct reply (block %d bytes) but '
                        'events %s' % (k, inf['block_len'], names))
            else:
                rd = [e for e in evs if e.name == 'ready'][0]
                if isinstance(inf['proto'], list):
                    if not all(p in (rd.snap[1] or '') for p in inf['proto']):
                        res.bad('C10/ready/protocol_line_lost',
                                'Ready.protocol=%r, the reply carried two '
                                'protocol lines %r' % (rd.snap[1], inf['proto']))
                elif rd.snap[1] != inf['proto']:
                    res.bad('C10/ready/protocol', 'Ready.protocol=%r reply '
                            'carried %r' % (rd.snap[1], inf['proto']))
                elif inf['proto']:
                    res.stats['probe:protocol_negotiated'] += 1
                want_ext = ('permessage-deflate',) if inf['ext'] else ()
                if rd.snap[2] != want_ext:
                    res.bad('C10/ready/extensions', 'Ready.extensions=%r '
                            'expected %r' % (rd.snap[2], want_ext))
                elif inf['ext']:
                    res.stats['probe:extension_negotiated'] += 1
                if [m.snap[2] for m in msgs] != [MARK.decode(), MARK]:
                    res.bad('C10/ready/frames_after_reply_lost',
                            'events %s' % names)
        else:
            if has_ready:
                res.bad('C10/%s/ready_granted' % tag,
                        'attempt %d: status=%s upgrade=%r accept=%s block=%d '
                        'terminated=%s -> events %s' % (
                            k, a['status'], a.get('upgrade'), a['accept'],
                            inf['block_len'], a.get('terminated', True), names))
            if msgs:
                res.bad('C10/%s/message_without_ready' % tag,
                        'events %s' % names)
            if v == 'protocol_error':
                res.stats['probe:must_protocol_error'] += 1
                if 'protocol_error' not in names:
                    res.bad('C10/oversize/no_protocol_error',
                            'block of %d bytes (terminated=%s): events %s' % (
                                inf['block_len'], a.get('terminated', True),
                                names))
            elif v == 'rejected':
                res.stats['probe:must_reject'] += 1
                if 'rejected' not in names and not has_ready:
                    res.bad('C10/%s/no_rejected' % tag, 'events %s' % names)
            if not names or names[-1] not in ('disconnected', 'connect_fail'):
                res.bad('C10/%s/no_terminal' % tag, 'events %s' % names)
        if not st.closed:
            res.bad('C10/%s/socket_left_open' % tag, 'events %s' % names)
    real = [x for x in keys if x is not None]
    if len(set(real)) != len(real):
        res.bad('C10/request/key_reused', 'keys of the chain: %r' % (real,))
    for k2, m in oracle.trace_sanity(tr):
        res.xobs.append('C07/' + k2)
        if k2 in ('hang', 'escaped'):
            res.bad('C10/' + k2, m)
    res.nontrivial = bool(real)
    res.sig = '%s|%s|%s' % (
        case['url'], [(a['status'], a.get('upgrade'), a['accept'],
                       a.get('block'), a.get('terminated', True),
                       a.get('fold'), a.get('shape_seed', 0) % 97)
                      for a in case['attempts']], verdicts)
    res.sample = {'url': case['url'], 'protocols': case.get('protocols'),
                  'compress': case.get('compress'),
                  'attempts': [{'status': a['status'], 'upgrade': a.get('upgrade'),
                                'accept': a['accept'], 'block': i2['block_len'],
                                'verdict': i2['verdict']}
                               for a, i2 in zip(case['attempts'], info)],
                  'events': [e.name for e in tr.events if e.name != 'poll'][:20]}
    return res
