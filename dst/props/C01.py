"""C01 - every server message is delivered once, in order, byte-exact."""
import collections

from .. import netsim, oracle, peer, scen as S
from ..runner import Result

ID = 'C01'
LEVEL = 'exploration'
RULE = ('seeded abstract message lists (text/binary/ping/pong/final close; '
        'sizes from the 7/16/64-bit boundaries and seeded sizes) are encoded '
        'with seeded fragmentation (incl. empty fragments), control frames '
        'between fragments and minimal/non-minimal length forms, then cut '
        'into seeded TCP reads with seeded delays; the expected event list is '
        'the abstract list in completion order, never a re-parse.  A case is '
        'non-trivial when it reached Ready and delivered >= 1 message; '
        'distinct = distinct (event names, fragment layout, length forms, '
        'number of reads) signatures')
SHRINK_LISTS = [('items',), ('items', '*', 'inner', '*'), ('items', '*', 'cuts'),
                ('cuts',)]
EXPECTED_PROBES = ['fragmented', 'ctl_between_fragments', 'empty_fragment',
                   'nonminimal_len', 'len64', 'reply_and_frames_same_read',
                   'cut_inside_header', 'final_close']


def plan(tier):
    return [('seeded', 4000 if tier == 'quick' else 150000),
            ('big', 120 if tier == 'quick' else 4000)]


def _ctl(rng):
    kind = rng.choice(['ping', 'ping', 'pong'])
    n = rng.choice([0, 1, 2, 125, rng.randrange(0, 126)])
    return {'kind': kind, 'hex': S.rand_bytes(rng, n).hex()}


def make_case(family, i, rng, tier):
    items = []
    nmsg = rng.randrange(1, 9 if family == 'seeded' else 3)
    for _ in range(nmsg):
        r = rng.random()
        if r < 0.3:
            items.append(_ctl(rng))
            continue
        kind = 'text' if rng.random() < 0.5 else 'binary'
        if family == 'big':
            size = rng.choice([65535, 65536, 65537, 70000,
                               rng.randrange(65538, 300000)])
        else:
            size = rng.choice([0, 1, 2, 125, 126, 127, 200, 1000,
                               rng.randrange(0, 300), rng.randrange(0, 5000)])
        it = {'kind': kind}
        if kind == 'text':
            it['text'] = S.rand_text(rng, size if size < 3000 else size // 3)
            plen = len(it['text'].encode('utf-8'))
        else:
            it['hex'] = S.rand_bytes(rng, size).hex()
            plen = size
        # fragmentation: cut offsets into the payload; duplicates / 0 / plen
        # produce empty fragments
        nfr = rng.choice([1, 1, 1, 2, 2, 3, 4, 6])
        cuts = []
        for _ in range(nfr - 1):
            c = rng.choice([0, plen, rng.randrange(0, plen + 1)])
            cuts.append(c)
        it['cuts'] = sorted(cuts)
        it['lenforms'] = [rng.choice([None, None, None, 16, 64])
                          for _ in range(nfr)]
        inner = []
        for _ in range(nfr - 1):
            k = rng.choice([0, 0, 1, 1, 2])
            inner.append([_ctl(rng) for _ in range(k)])
        it['inner'] = inner
        items.append(it)
    case = {'items': items, 'auto_pong': rng.random() < 0.7}
    if rng.random() < 0.4:
        code = rng.choice([1000, 1001, 1002, 1003, 1007, 1008, 1009, 1010,
                           1011, 3000, 4999, None])
        reason = S.rand_text(rng, rng.choice([0, 0, 5, 40])) \
            if code is not None else u''
        while len(reason.encode('utf-8')) > 123:
            reason = reason[:-1]
        case['close'] = {'code': code, 'reason': reason}
    # segmentation of the whole stream (handshake reply + frames)
    mode = rng.choice(['one', 'reply_alone', 'cuts', 'cuts', 'bytes'])
    if family == 'big' and mode == 'bytes':
        mode = 'cuts'
    case['seg'] = mode
    case['ncuts'] = rng.randrange(1, 12)
    case['cut_seed'] = rng.getrandbits(32)
    case['gaps'] = [rng.choice([0, 0, 0, 1000, 200000, 6000000])
                    for _ in range(4)]
    case['epoch'] = rng.choice([0, 1.7e9])
    case['poll'] = rng.choice([5, 5, 0.5, 60])
    return case


def _payload(it):
    if it['kind'] == 'text':
        return it['text'].encode('utf-8')
    return bytes.fromhex(it['hex'])


OPC = {'text': 1, 'binary': 2, 'ping': 9, 'pong': 10, 'close': 8}


def build(case):
    """-> (scenario, expected events, probes, layout signature)"""
    import random
    stream = bytearray()
    expected = []
    probes = collections.Counter()
    layout = []
    header_spans = []

    def emit(op, payload, fin=1, lenform=None):
        n = len(payload)
        if lenform == 16 and n >= 65536:
            lenform = None
        if lenform is not None and ((lenform == 16 and n < 126) or
                                    (lenform == 64 and n < 65536)):
            probes['nonminimal_len'] += 1
        if n >= 65536 or lenform == 64:
            probes['len64'] += 1
        fr = peer.enc_frame(op, payload, fin=fin, lenform=lenform)
        header_spans.append((len(stream), len(stream) + len(fr) - n))
        stream.extend(fr)
        layout.append('%d%s%d' % (op, 'F' if fin else 'f',
                                  0 if n == 0 else (1 if n < 126 else
                                                    (2 if n < 65536 else 3))))

    for it in case['items']:
        kind = it['kind']
        if kind in ('ping', 'pong'):
            data = bytes.fromhex(it['hex'])[:125]
            emit(OPC[kind], data)
            expected.append((kind, data))
            continue
        payload = _payload(it)
        cuts = [min(max(c, 0), len(payload)) for c in it.get('cuts', [])]
        bounds = [0] + sorted(cuts) + [len(payload)]
        nfr = len(bounds) - 1
        if nfr > 1:
            probes['fragmented'] += 1
        lenforms = it.get('lenforms') or []
        inner = it.get('inner') or []
        for k in range(nfr):
            part = payload[bounds[k]:bounds[k + 1]]
            if nfr > 1 and not part:
                probes['empty_fragment'] += 1
            emit(OPC[kind] if k == 0 else 0, part,
                 fin=1 if k == nfr - 1 else 0,
                 lenform=lenforms[k] if k < len(lenforms) else None)
            if k < nfr - 1 and k < len(inner):
                for c in inner[k]:
                    data = bytes.fromhex(c['hex'])[:125]
                    emit(OPC[c['kind']], data)
                    expected.append((c['kind'], data))
                    probes['ctl_between_fragments'] += 1
        if kind == 'text':
            expected.append(('text', payload.decode('utf-8')))
        else:
            expected.append(('binary', payload))
    cl = case.get('close')
    if cl:
        emit(8, peer.enc_close_payload(cl['code'], cl['reason']))
        expected.append(('closing', cl['code'], cl['reason']))
        probes['final_close'] += 1

    reply = S.reply_tmpl()
    # offsets below are in the final byte stream (placeholder replaced)
    reply_len = len(reply) - len(b'@@ACCEPT@@') + 28
    total = reply_len + len(stream)
    mode = case.get('seg', 'one')
    rng = random.Random(case.get('cut_seed', 0))
    if 'cuts' in case and case['cuts'] is not None:
        cuts = list(case['cuts'])
    elif mode == 'one':
        cuts = []
    elif mode == 'reply_alone':
        cuts = [reply_len]
    elif mode == 'bytes':
        cuts = list(range(1, min(total, 600))) if total < 3000 else \
            [reply_len]
    else:
        cuts = sorted(set(rng.randrange(1, total)
                          for _ in range(case.get('ncuts', 3)))) \
            if total > 1 else []
        # bias: cut inside a frame header
        if header_spans and rng.random() < 0.7:
            a, b = rng.choice(header_spans)
            if b - a > 1:
                cuts.append(reply_len + rng.randrange(a + 1, b))
        cuts = sorted(set(cuts))
    if reply_len not in cuts and stream:
        probes['reply_and_frames_same_read'] += 1
    for a, b in header_spans:
        if any(reply_len + a < c < reply_len + b for c in cuts):
            probes['cut_inside_header'] += 1
            break
    step = {'op': 'reply', 'tmpl': (reply + bytes(stream)).hex(),
            'accept': 'ok', 'cuts': cuts, 'gaps': case.get('gaps') or [0]}
    server = [{'op': 'await_request'}, step]
    if cl:
        server += [{'op': 'await_close', 'timeout': 5000000}, S.eof()]
    else:
        server += [S.eof(after=1000)]
    scenario = {
        'url': 'ws://example.test/',
        'epoch': case.get('epoch', 0),
        'connect': {'poll': case.get('poll', 5),
                    'auto_pong': case.get('auto_pong', True)},
        'conns': [{'server': server}],
    }
    return scenario, expected, probes, ''.join(layout) + '/%d' % len(cuts)


def execute(case):
    res = Result()
    scenario, expected, probes, layout = build(case)
    tr = netsim.run(scenario)
    for k, v in probes.items():
        res.stats['probe:' + k] += v
    res.stats.update(tr.world.stats)
    res.sim_us = tr.world.now
    res.digest = tr.digest()
    got = [oracle.payload_of(e.snap) for e in oracle.msg_events(tr)]
    names = tr.names()
    # ---- the property
    if got != expected:
        # classify for the key
        kind = 'mismatch'
        if len(got) < len(expected) and got == expected[:len(got)]:
            kind = 'dropped_tail'
        elif len(got) > len(expected):
            kind = 'extra'
        elif [g[0] for g in got] == [e[0] for e in expected]:
            kind = 'payload_differs'
        else:
            kind = 'order_or_kind'
        res.bad('C01/' + kind,
                'expected %d message events %s..., got %d %s...' % (
                    len(expected), _short(expected), len(got), _short(got)))
    for e in oracle.msg_events(tr):
        if e.name == 'text' and e.snap[1] != 'str':
            res.bad('C01/type', 'Text.text is %s' % e.snap[1])
        if e.name in ('binary', 'ping', 'pong') and e.snap[1] != 'bytes':
            res.bad('C01/type', '%s.data is %s' % (e.name, e.snap[1]))
        if netsim.snapshot(e.obj) != e.snap:
            res.bad('C01/payload_changed_after_yield',
                    'event %d (%s) changed after it was yielded' % (
                        e.index, e.name))
    if 'protocol_error' in names:
        res.bad('C01/protocol_error_on_valid_stream', 'events: %s' % names[-8:])
    for k, m in oracle.trace_sanity(tr):
        res.xobs.append('C07/' + k)
        if k in ('hang', 'escaped'):
            res.bad('C01/' + k, m)
    if tr.world.socks:
        for k, m in oracle.wire_problems(oracle.Wire(tr.world.socks[-1]), False):
            res.xobs.append('C03/' + k)
    res.nontrivial = 'ready' in names and len(got) >= 1
    res.sig = '%s|%s' % (','.join(n[:3] for n in names), layout)
    res.sample = {'items': [_item_summary(it) for it in case['items'][:6]],
                  'close': case.get('close'), 'seg': case.get('seg'),
                  'events': names[:30], 'reads': len(tr.world.socks[0].delivered)
                  if tr.world.socks else 0}
    return res


def _short(lst):
    out = []
    for x in lst[:4]:
        out.append(tuple((v[:12] if isinstance(v, (bytes, str)) else v)
                         for v in x))
    return out


def _item_summary(it):
    d = {'kind': it['kind']}
    if 'text' in it:
        d['chars'] = len(it['text'])
    if 'hex' in it:
        d['bytes'] = len(it['hex']) // 2
    if it.get('cuts'):
        d['cuts'] = it['cuts']
    if it.get('lenforms'):
        d['lenforms'] = it['lenforms']
    if it.get('inner'):
        d['inner'] = [[c['kind'] for c in g] for g in it['inner']]
    return d
