"""C01 - every server message is delivered once, in order, byte-exact."""
from .. import netsim, oracle, peer, scen as S, streams as ST
from ..runner import Result

ID = 'C01'
LEVEL = 'exploration'
RULE = ('seeded abstract message lists (text/binary/ping/pong/final close; '
        'sizes from the 7/16/64-bit boundaries and seeded sizes) are encoded '
        'with seeded fragmentation (incl. empty fragments), control frames '
        'between fragments and minimal/non-minimal length forms, then cut '
        'into seeded TCP reads with seeded delays; the expected event list is '
        'the abstract list in completion order, never a re-parse.  A case is '
        'non-trivial when it reached Ready and delivered >= 1 message; '
        'distinct = distinct (event names, fragment layout, length forms, '
        'number of reads) signatures')
RULE += (' '
         'Further families: `pair` (two WebSocket objects alive at once, '
         'event loops advanced in a seeded interleaved order: each must '
         'behave as alone), `pong_fault` (the write of one automatic Pong '
         'fails: everything that had reached the socket by then is still '
         'delivered, in order); control frames also in the legal non-minimal '
         'length forms; 30 % of runs with negotiated permessage-deflate; '
         'optional broken earlier connection on the same object.')
SHRINK_LISTS = [('items',), ('items', '*', 'inner', '*'), ('items', '*', 'cuts'),
                ('cuts',)]
EXPECTED_PROBES = ['fragmented', 'ctl_between_fragments', 'empty_fragment',
                   'nonminimal_len', 'len64', 'reply_and_frames_same_read',
                   'cut_inside_header', 'final_close', 'app_close_mid_stream',
                   'with_deflate', 'after_broken_connection',
                   'two_objects_interleaved', 'pong_write_failed',
                   'unread_data_queued_at_failed_write']


def plan(tier):
    return [('seeded', 10000 if tier == 'quick' else 150000),
            ('big', 120 if tier == 'quick' else 4000),
            ('pair', 600 if tier == 'quick' else 20000),
            ('pong_fault', 800 if tier == 'quick' else 30000),
            ('windows', 1500 if tier == 'quick' else 40000)]


def make_case(family, i, rng, tier):
    if family == 'windows':
        # compressed traffic under every negotiated (server window, client
        # window, context take-over) combination, with repeats further back
        # than the smaller window: scenario and delivery oracle of C06
        from . import C06, _delegate
        return _delegate.make(C06, 'seeded', rng, tier, 'windows')
    if family == 'pair':
        a = make_case('seeded', i, rng, tier)
        b = make_case('seeded', i, rng, tier)
        for c in (a, b):
            c.pop('prelude', None)
            c.pop('app_close_at', None)
            c['gaps'] = [rng.choice([0, 0, 1000])]
            if c.get('seg') == 'bytes':
                c['seg'] = 'cuts'
        n = rng.choice([2, 3, 5, 8])
        return {'pair': [a, b],
                'order': [rng.randrange(2) for _ in range(n)] + [0, 1]}
    if family == 'pong_fault':
        # the write of one automatic Pong fails (the peer is gone or the
        # write is refused): everything that had reached the client's socket
        # by then is still delivered
        for _ in range(20):
            c = make_case('seeded', i, rng, tier)
            n = sum(1 for e in ST.encode_items(c['items']).expected
                    if e[0] == 'ping')
            if n:
                break
        c.pop('prelude', None)
        c.pop('app_close_at', None)
        c['auto_pong'] = True
        c['gaps'] = [0]
        if c.get('seg') == 'bytes':
            c['seg'] = 'cuts'
        c['fault_pong'] = {'k': rng.randrange(n) if n else 0,
                           'kind': rng.choice(['epipe', 'reset', 'exc',
                                               'timeout', 'enobufs'])}
        return c
    big = family == 'big'
    items = ST.make_items(rng, 2 if big else 8, big=big)
    case = {'items': items, 'auto_pong': rng.random() < 0.7}
    if rng.random() < 0.4:
        code = rng.choice([1000, 1001, 1002, 1003, 1007, 1008, 1009, 1010,
                           1011, 1012, 1013, 3000, 3999, 4000, 4999, None])
        reason = S.rand_text(rng, rng.choice([0, 0, 5, 40])) \
            if code is not None else u''
        while len(reason.encode('utf-8')) > 123:
            reason = reason[:-1]
        case['close'] = {'code': code, 'reason': reason}
    if not big and rng.random() < 0.2:
        # the application starts the closing handshake at a seeded message;
        # the server keeps sending, everything must still be delivered
        enc0 = ST.encode_items(items)
        if enc0.expected:
            k = rng.randrange(len(enc0.expected))
            name = enc0.expected[k][0]
            case['app_close_at'] = {'name': name,
                                    'nth': sum(1 for e in enc0.expected[:k]
                                               if e[0] == name)}
            # no close timeout in any of its spellings: nothing is dropped
            case['close_timeout'] = rng.choice([None, None, 0, 0.0])
            case.setdefault('close', {'code': 1000, 'reason': u'ack'})
    if rng.random() < 0.3:
        # permessage-deflate negotiated with seeded parameters; most data
        # messages arrive compressed (history carried or not, as negotiated)
        case['deflate'] = {'sw': rng.choice([8, 9, 11, 15]),
                           'snct': rng.random() < 0.4,
                           'cnct': rng.random() < 0.4,
                           # the server ends its deflate streams with final
                           # blocks: k finished streams per message
                           'bfinal': rng.choice([0, 0, 0, 1, 4, 6])}
        for it in items:
            if it['kind'] in ('text', 'binary'):
                it['z'] = rng.random() < 0.75
    if not big and rng.random() < 0.1:
        # an earlier connection of the same object that broke off in the
        # middle of something; nothing of it may leak into this one
        case['prelude'] = rng.choice(['mid_codepoint', 'bad_utf8',
                                      'mid_fragmented', 'mid_frame'])
    case.update(ST.seg_fields(rng, big))
    case['epoch'] = rng.choice([0, 1.7e9])
    case['poll'] = rng.choice([5, 5, 0.5, 60])
    return case


def build(case):
    """-> (scenario, expected events, probes, layout signature)"""
    items = list(case['items'])
    cl = case.get('close')
    if cl:
        items.append({'kind': 'close', 'code': cl['code'],
                      'reason': cl['reason']})
    transform = None
    extra = ()
    ws = None
    dfl = case.get('deflate')
    if dfl:
        dp = peer.DeflatePeer(dfl['sw'], 15, dfl['snct'], dfl['cnct'])

        def transform(payload, it):
            if it.get('z') and dfl.get('bfinal') and len(payload) > 8:
                # RFC 7692 7.2.3.4, several times in one message: finished
                # streams one after the other, then the 0x00
                import zlib
                k = dfl['bfinal']
                step = (len(payload) + k - 1) // k
                out = b''
                for j in range(0, len(payload), step):
                    c = zlib.compressobj(6, zlib.DEFLATED, -max(9, dfl['sw']))
                    out += c.compress(payload[j:j + step]) + \
                        c.flush(zlib.Z_FINISH)
                dp._c = None
                return out + b'\x00', 1
            if it.get('z'):
                return dp.compress(payload), 1
            return payload, 0
        extra = [S.deflate_ext_header(dfl['sw'], None, dfl['snct'],
                                      dfl['cnct'])]
        ws = {'compress': True}
    enc = ST.encode_items(items, transform=transform)
    if dfl:
        enc.probes['with_deflate'] += 1
    if cl:
        tail = [{'op': 'await_close', 'timeout': 5000000}, S.eof()]
    else:
        tail = [S.eof(after=1000)]
    app = None
    if case.get('app_close_at'):
        app = [{'when': dict(case['app_close_at']),
                'do': [{'op': 'close', 'code': 1000, 'reason': 'app'}]}]
        if cl:
            enc.expected[-1] = ('closed',) + enc.expected[-1][1:]
        enc.probes['app_close_mid_stream'] += 1
    scenario = ST.stream_scenario(
        case, enc, tail, app=app, extra_headers=extra, ws=ws,
        connect={'poll': case.get('poll', 5),
                 'auto_pong': case.get('auto_pong', True),
                 'close_timeout': case.get('close_timeout')})
    pre = case.get('prelude')
    if pre:
        fr = {'mid_codepoint': peer.enc_frame(1, b'abc\xe2\x82', fin=0),
              'bad_utf8': peer.enc_frame(1, b'abc\xff'),
              'mid_fragmented': peer.enc_frame(2, b'frag', fin=0) +
              peer.enc_frame(9, b'p'),
              'mid_frame': peer.enc_frame(2, b'x' * 300)[:40]}[pre]
        first = {'server': S.handshake_steps(extra) + [S.send(fr),
                                                       S.eof(after=1003)]}
        scenario['conns'] = [first] + scenario['conns']
        scenario['n_connects'] = 2
        for rule in scenario.get('app') or []:
            rule['when'] = dict(rule['when'], attempt=1)
        enc.probes['after_broken_connection'] += 1
    if case.get('fault_pong'):
        # sendall #0 is the upgrade request, the application is passive
        scenario['conns'][-1]['faults'] = [
            {'op': 'sendall', 'k': case['fault_pong']['k'] + 1,
             'kind': case['fault_pong']['kind']}]
        scenario['_ends'] = [e + scenario['_rlen'] for e in enc.expected_ends]
    ncuts = len(scenario['conns'][-1]['server'][1]['cuts'])
    return scenario, enc.expected, enc.probes, \
        ''.join(enc.layout) + '/%d' % ncuts


def execute(case):
    if case.get('via'):
        from . import _delegate
        return _delegate.run(case, 'C01', (
            'wrong_content', 'not_delivered', 'no_ready',
            'payload_changed_after_delivery', 'binary_not_bytes', 'hang',
            'escaped'))
    if 'pair' in case:
        return _execute_pair(case)
    res = Result()
    scenario, expected, probes, layout = build(case)
    tr = netsim.run(scenario)
    return _judge(res, case, tr, expected, probes, layout, '',
                  ends=scenario.get('_ends'))


def _execute_pair(case):
    """Two WebSocket objects alive at once, their event loops advanced in
    an interleaved order: neither may disturb the other."""
    res = Result()
    a, b = case['pair']
    sa, ea, pa, la = build(a)
    sb, eb, pb, lb = build(b)
    traces = netsim.run_multi(netsim.pair_scenario(sa, sb, case.get('order')))
    res.stats['probe:two_objects_interleaved'] += 1
    _judge(res, a, traces[0], ea, pa, la, 'pair/')
    h = res.digest
    sig = res.sig
    _judge(res, b, traces[1], eb, pb, lb, 'pair/')
    res.digest = h + res.digest
    res.sig = sig + '||' + res.sig
    return res


def _judge(res, case, tr, expected, probes, layout, tag, ends=None):
    for k, v in probes.items():
        res.stats['probe:' + k] += v
    res.stats.update(tr.world.stats)
    res.sim_us = tr.world.now
    res.digest = tr.digest()
    if case.get('prelude'):
        tr.events = oracle.split_attempts(tr.events)[-1]
    got = [oracle.payload_of(e.snap) for e in oracle.msg_events(tr)]
    names = tr.names()
    marks = tr.world.fault_marks
    if case.get('fault_pong') and marks and ends is not None:
        res.stats['probe:pong_write_failed'] += 1
        arrived = marks[0][6]
        must = [e for e, end in zip(expected, ends) if end <= arrived]
        if arrived > marks[0][3]:
            res.stats['probe:unread_data_queued_at_failed_write'] += 1
        if got[:len(must)] != must or got != expected[:len(got)]:
            res.bad('C01/pong_fault/lost_or_wrong',
                    '%d bytes had arrived (%d read) when a Pong write failed '
                    '(%s): the %d messages complete in them must be '
                    'delivered, in order; got %d %s...' % (
                        arrived, marks[0][3], case['fault_pong']['kind'],
                        len(must), len(got), _short(got)))
        expected = got          # judged above; the rest of the oracle stands
    # ---- the property
    if got != expected:
        # classify for the key
        kind = 'mismatch'
        if len(got) < len(expected) and got == expected[:len(got)]:
            kind = 'dropped_tail'
        elif len(got) > len(expected):
            kind = 'extra'
        elif [g[0] for g in got] == [e[0] for e in expected]:
            kind = 'payload_differs'
        else:
            kind = 'order_or_kind'
        res.bad('C01/' + tag + kind,
                'expected %d message events %s..., got %d %s...' % (
                    len(expected), _short(expected), len(got), _short(got)))
    for e in oracle.msg_events(tr):
        if e.name == 'text' and e.snap[1] != 'str':
            res.bad('C01/type', 'Text.text is %s' % e.snap[1])
        if e.name in ('binary', 'ping', 'pong') and e.snap[1] != 'bytes':
            res.bad('C01/type', '%s.data is %s' % (e.name, e.snap[1]))
        if netsim.snapshot(e.obj) != e.snap:
            res.bad('C01/payload_changed_after_yield',
                    'event %d (%s) changed after it was yielded' % (
                        e.index, e.name))
    if 'protocol_error' in names:
        res.bad('C01/protocol_error_on_valid_stream', 'events: %s' % names[-8:])
    for k, m in oracle.trace_sanity(tr):
        res.xobs.append('C07/' + k)
        if k in ('hang', 'escaped'):
            res.bad('C01/' + k, m)
    if tr.world.socks:
        for k, m in oracle.wire_problems(oracle.Wire(tr.world.socks[-1]), False):
            res.xobs.append('C03/' + k)
    res.nontrivial = 'ready' in names and len(got) >= 1
    res.sig = '%s|%s' % (','.join(n[:3] for n in names), layout)
    res.sample = {'items': [_item_summary(it) for it in case['items'][:6]],
                  'close': case.get('close'), 'seg': case.get('seg'),
                  'events': names[:30], 'reads': len(tr.world.socks[0].delivered)
                  if tr.world.socks else 0}
    return res


def _short(lst):
    out = []
    for x in lst[:4]:
        out.append(tuple((v[:12] if isinstance(v, (bytes, str)) else v)
                         for v in x))
    return out


def _item_summary(it):
    d = {'kind': it['kind']}
    if 'text' in it:
        d['chars'] = len(it['text'])
    if 'hex' in it:
        d['bytes'] = len(it['hex']) // 2
    if it.get('cuts'):
        d['cuts'] = it['cuts']
    if it.get('lenforms'):
        d['lenforms'] = it['lenforms']
    if it.get('inner'):
        d['inner'] = [[c['kind'] for c in g] for g in it['inner']]
    return d
