"""C07 - every connection attempt yields a well-formed, finite event sequence."""
from .. import netsim, oracle, peer, scen as S
from ..runner import Result

ID = 'C07'
LEVEL = 'exploration'
RULE = ('bounded family: every sequence of <= L server steps over a 17-token '
        'alphabet (handshake variants, frames, invalid frames, silences, EOF, '
        'RST) x 8 application reaction tables x 12 single faults, enumerated '
        'by mixed-radix index (complete in thorough for L<=3, stratified '
        'sample otherwise); random family: histories of up to 200 steps with '
        'seeded multi-fault plans.  Oracle: event-order automaton + iterator '
        'stays finished + termination within the step budget.  Non-trivial = '
        'got past Connecting; distinct = distinct (event-name sequence, '
        'faults fired) signatures')
RULE += (' '
         'hold / random families also draw: non-ASCII URL path, query, agent '
         'and protocols; reads that fill the 64 KiB buffer exactly followed '
         'by silence; connections through an HTTP proxy that answers 200 '
         '(whole or in pieces), closes at once or mid-answer, answers 407 or '
         'garbage, or stays silent.')
SHRINK_LISTS = [('tokens',), ('faults',)]
EXPECTED_PROBES = ['ended_by_timer_only', 'reached_ready', 'reached_rejected', 'reached_protocol_error',
                   'reached_unresponsive', 'reached_closed', 'connect_fail',
                   'nongraceful', 'graceful', 'non_ascii_request',
                   'read_filled_buffer_exactly', 'via_proxy_ok',
                   'via_proxy_refusing', 'reads_that_complete_nothing']

TOKENS = ['good101', 'bad_accept', 'http200', 'garbage', 'bighdr', 'text',
          'frag', 'cont', 'ping', 'pong', 'close', 'invalid', 'badutf8',
          'silence_short', 'silence_long', 'eof', 'rst']
APPS = ['nothing', 'send_always', 'close_on_ready', 'close_twice_on_msg',
        'send_in_closing', 'react_to_errors', 'early_bird', 'send_after_close']
FAULTS = [None,
          {'kind': 'refused'},
          {'op': 'sendall', 'k': 0, 'kind': 'epipe'},
          {'op': 'sendall', 'k': 0, 'kind': 'exc'},
          {'op': 'sendall', 'k': 1, 'kind': 'reset'},
          {'op': 'sendall', 'k': 2, 'kind': 'exc'},
          {'op': 'recv', 'k': 0, 'kind': 'exc'},
          {'op': 'recv', 'k': 1, 'kind': 'exc'},
          {'op': 'recv', 'k': 2, 'kind': 'reset'},
          {'op': 'poll', 'k': 0, 'kind': 'exc'},
          {'op': 'poll', 'k': 1, 'kind': 'oserror'},
          {'op': 'poll', 'k': 3, 'kind': 'exc'}]

NT, NA, NF = len(TOKENS), len(APPS), len(FAULTS)
# what the request is made of (characters outside ASCII / Latin-1)
REQS = [None, None, None, 'path', 'query', 'agent', 'proto', 'all']
# through an HTTP proxy: how the proxy answers the CONNECT
PROXIES = [None] * 20 + ['ok', 'ok_split', 'eof', 'eof_mid', 'status407',
                        'garbage', 'silent']


def _nseq(L):
    return sum(NT ** k for k in range(0, L + 1))


def plan(tier):
    if tier == 'quick':
        return [('bounded3', 6000), ('bounded4', 14000), ('random', 3000),
                ('hold', 1500)]
    return [('bounded3', _nseq(3) * NA * NF), ('bounded4', 600000),
            ('bounded5', 300000), ('random', 100000), ('hold', 60000)]


def _decode_seq(n, L):
    """n-th token sequence of length <= L (shortest first)."""
    for k in range(0, L + 1):
        if n < NT ** k:
            out = []
            for _ in range(k):
                out.append(TOKENS[n % NT])
                n //= NT
            return out
        n -= NT ** k
    raise IndexError


def make_case(family, i, rng, tier):
    if family.startswith('bounded'):
        L = int(family[-1])
        total = _nseq(L) * NA * NF
        if family == 'bounded3' and tier == 'thorough':
            n = i
        else:
            n = rng.randrange(total)
        f = n % NF
        n //= NF
        a = n % NA
        n //= NA
        case = {'tokens': _decode_seq(n, L), 'app': APPS[a],
                'faults': [FAULTS[f]] if FAULTS[f] else []}
        case['ping_timeout'] = [None, 20][(i // 7) % 2]
        case['close_timeout'] = [30, None, 3][(i // 3) % 3]
        return case
    if family == 'hold':
        # the server completes the handshake, then keeps the connection open
        # and stays silent for ever: only a timer can end the iteration
        mid = rng.choices(['text', 'frag', 'cont', 'ping', 'pong', 'close',
                           'invalid', 'silence_short', 'silence_long',
                           'fullread', 'fullread2'],
                          [4, 2, 2, 3, 2, 1, 0.3, 2, 1, 2, 1],
                          k=rng.choice([0, 0, 1, 2, 5]))
        # 'hold': silence for ever.  'drip': the server never stops sending
        # but nothing it sends ever completes a message (one huge frame a
        # byte at a time, faster than the poll interval): only a timer can
        # end the iteration
        last = rng.choice(['hold', 'hold', 'drip'])
        case = {'tokens': ['good101'] + mid + [last], 'faults': [],
                'epoch': rng.choice([0, 1.7e9]),
                'pongs': rng.choice([0, 0, 1, 3]),
                'poll': rng.choice([5, 1, 0.25]),
                'ping_rate': rng.choice([30, 0, 4]),
                'req': rng.choice(REQS), 'proxy': rng.choice(PROXIES)}
        if rng.random() < 0.25:
            case['compress'] = True
            case['tokens'] = ['good101'] + [
                rng.choice(['ctext', 'ctext_bfinal', 'ctext_bfinal', 'text'])
                for _ in range(rng.choice([1, 2, 4]))] + case['tokens'][1:]
        if rng.random() < 0.5:
            case['ping_timeout'] = rng.choice([7, 20])
            case['close_timeout'] = rng.choice([30, None, 0, 3])
            case['app'] = rng.choice(APPS)
        else:
            case['ping_timeout'] = None
            case['close_timeout'] = rng.choice([3, 30, 0.5])
            case['app'] = rng.choice(['close_on_ready', 'early_bird',
                                      'send_after_close'])
        if last == 'drip':
            # nothing but the drip after the handshake, no Pongs: the timer
            # that ends the iteration is known
            case['tokens'] = ['good101', 'drip']
            case['pongs'] = 0
            if case['ping_timeout'] is None and not case['close_timeout']:
                case['close_timeout'] = 3
        return case
    # random long histories
    n = rng.choice([3, 8, 20, 60, 200])
    weights = {'good101': 2, 'text': 6, 'frag': 3, 'cont': 3, 'ping': 4,
               'pong': 2, 'close': 1, 'invalid': 0.3, 'badutf8': 0.3,
               'silence_short': 2, 'silence_long': 0.5, 'eof': 0.3,
               'rst': 0.3, 'bad_accept': 0.2, 'http200': 0.2, 'garbage': 0.2,
               'bighdr': 0.1, 'fullread': 0.5, 'fullread2': 0.2}
    toks = ['good101'] if rng.random() < 0.85 else []
    compress = rng.random() < 0.25
    if compress:
        weights['ctext'] = 3
        weights['ctext_bfinal'] = 2
    names = list(weights)
    ws = [weights[k] for k in names]
    toks += rng.choices(names, ws, k=n)
    faults = []
    for _ in range(rng.choice([0, 0, 1, 1, 2, 3])):
        f = rng.choice(FAULTS[1:])
        f = dict(f)
        if 'k' in f:
            f['k'] = rng.randrange(0, 12)
        faults.append(f)
    return {'tokens': toks, 'app': rng.choice(APPS), 'faults': faults,
            'ping_timeout': rng.choice([None, None, 7, 20]),
            'close_timeout': rng.choice([30, None, 0, 3]),
            'ping_rate': rng.choice([30, 0, 4]),
            'poll': rng.choice([5, 1, 0.25]),
            'cuts': rng.random() < 0.5, 'cut_seed': rng.getrandbits(32),
            'req': rng.choice(REQS), 'proxy': rng.choice(PROXIES),
            'compress': compress}


def _compile_tokens(tokens, compress=False):
    import zlib
    steps = []
    for t in tokens:
        if t == 'good101':
            steps += S.handshake_steps(
                [b'Sec-WebSocket-Extensions: permessage-deflate']
                if compress else ())
        elif t == 'ctext':
            c = zlib.compressobj(6, zlib.DEFLATED, -15)
            z = c.compress(b'compressed hello ' * 4) + c.flush(
                zlib.Z_SYNC_FLUSH)
            steps.append(S.send(peer.enc_frame(1, z[:-4], rsv1=1)))
        elif t == 'ctext_bfinal':
            # a compressed message ending in a final block (RFC 7692 7.2.3.4)
            c = zlib.compressobj(6, zlib.DEFLATED, -15)
            z = c.compress(b'Hello') + c.flush(zlib.Z_FINISH) + b'\x00'
            steps.append(S.send(peer.enc_frame(1, z, rsv1=1)))
        elif t == 'bad_accept':
            steps += S.handshake_steps(accept='other_key')
        elif t == 'http200':
            steps += [{'op': 'await_request', 'timeout': 1000000},
                      S.send(b'HTTP/1.1 200 OK\r\nContent-Length: 0\r\n\r\n')]
        elif t == 'garbage':
            steps.append(S.send(b'\x00\xffgarbage without terminator\r\n'))
        elif t == 'bighdr':
            steps.append(S.send(b'HTTP/1.1 101 X\r\nX-Pad: ' + b'a' * 17000))
        elif t == 'text':
            steps.append(S.send(peer.enc_frame(1, b'hello')))
        elif t == 'frag':
            steps.append(S.send(peer.enc_frame(1, b'fra', fin=0)))
        elif t == 'cont':
            steps.append(S.send(peer.enc_frame(0, b'gment', fin=1)))
        elif t == 'ping':
            steps.append(S.send(peer.enc_frame(9, b'p')))
        elif t == 'pong':
            steps.append(S.send(peer.enc_frame(10, b'q')))
        elif t == 'close':
            steps.append(S.send(peer.enc_frame(
                8, peer.enc_close_payload(1000, 'bye'))))
        elif t == 'invalid':
            steps.append(S.send(peer.enc_frame(3, b'x')))
        elif t == 'badutf8':
            steps.append(S.send(peer.enc_frame(1, b'\xff\xfe')))
        elif t in ('fullread', 'fullread2'):
            # after a pause (nothing buffered) exactly N * 65536 bytes become
            # readable at once: every read fills the receive buffer exactly
            if t == 'fullread':
                fr = peer.enc_frame(2, b'\x5a' * (65536 - 4))
            else:
                fr = peer.enc_frame(2, b'\xa5' * (131072 - 10))
            assert len(fr) % 65536 == 0
            steps.append(S.send(fr, after=50001))
        elif t == 'silence_short':
            steps.append({'op': 'send', 'hex': '', 'after': 6000000})
        elif t == 'silence_long':
            steps.append({'op': 'send', 'hex': '', 'after': 100000000})
        elif t == 'eof':
            steps.append(S.eof())
        elif t == 'rst':
            steps.append(S.rst())
        elif t == 'hold':
            steps.append({'op': 'silence'})
        elif t == 'drip':
            fr = peer.enc_frame(2, b'd' * 60000)
            for j in range(1500):
                steps.append({'op': 'send', 'hex': fr[j:j + 1].hex(),
                              'after': 60007})
            steps.append({'op': 'silence'})
    if not tokens or tokens[-1] not in ('eof', 'rst', 'hold', 'drip'):
        steps.append(S.eof(after=1000000))
    return steps


def _app(name):
    snd = {'op': 'send_text', 'text': 'x'}
    cl = {'op': 'close'}
    if name == 'nothing':
        return []
    if name == 'send_always':
        return [{'when': {'name': n}, 'do': [snd]}
                for n in ('connecting', 'connected', 'ready', 'text', 'binary',
                          'ping', 'pong', 'poll', 'closing', 'closed',
                          'protocol_error', 'rejected', 'unresponsive')]
    if name == 'close_on_ready':
        return [{'when': {'name': 'ready'}, 'do': [cl]}]
    if name == 'close_twice_on_msg':
        return [{'when': {'name': n}, 'do': [cl, {'op': 'close', 'code': 1001,
                                                  'reason': 'again'}]}
                for n in ('text', 'ping', 'poll')]
    if name == 'send_in_closing':
        return [{'when': {'name': 'closing'}, 'do': [snd, {'op': 'send_ping'}]},
                {'when': {'name': 'closed'}, 'do': [snd]}]
    if name == 'react_to_errors':
        return [{'when': {'name': n}, 'do': [cl, snd]}
                for n in ('protocol_error', 'rejected', 'unresponsive')]
    if name == 'early_bird':
        return [{'when': {'name': 'connecting'}, 'do': [snd]},
                {'when': {'name': 'connected'}, 'do': [snd, cl]}]
    if name == 'send_after_close':
        return [{'when': {'name': 'poll', 'nth': 1}, 'do': [cl]},
                {'when': {'name': 'poll'}, 'do': [snd]},
                {'when': {'name': 'text'}, 'do': [snd]},
                {'when': {'name': 'pong'}, 'do': [{'op': 'send_ping'}]}]
    raise ValueError(name)


def build(case):
    conn = {'server': _compile_tokens(case['tokens'],
                                      bool(case.get('compress')))}
    nbytes = sum(len(st.get('hex', '')) // 2 + len(st.get('tmpl', '')) // 2
                 for st in conn['server'])
    faults = []
    for f in case.get('faults') or []:
        if f.get('kind') == 'refused' and 'op' not in f:
            conn['addrs'] = [{'connect': 'refused'}]
        else:
            faults.append(f)
    conn['faults'] = faults
    px = case.get('proxy')
    if px:
        ok = b'HTTP/1.1 200 Connection established\r\nVia: p\r\n\r\n'
        psteps = [{'op': 'await_request', 'nth': 1}]
        if px == 'ok':
            psteps.append({'op': 'reply', 'tmpl': ok.hex(), 'cuts': [],
                           'gaps': [0]})
        elif px == 'ok_split':
            psteps.append({'op': 'reply', 'tmpl': ok.hex(),
                           'cuts': [5, 20, len(ok) - 2], 'gaps': [1001]})
        elif px == 'eof':
            psteps.append(S.eof(after=1001))
        elif px == 'eof_mid':
            psteps += [{'op': 'reply', 'tmpl': ok[:25].hex(), 'cuts': [],
                        'gaps': [0]}, S.eof(after=1001)]
        elif px == 'status407':
            psteps += [{'op': 'reply', 'tmpl': (
                b'HTTP/1.1 407 Proxy Authentication Required\r\n'
                b'Proxy-Authenticate: Basic\r\n\r\n').hex(), 'cuts': [],
                'gaps': [0]}, S.eof(after=2000001)]
        elif px == 'garbage':
            psteps += [{'op': 'reply', 'tmpl': (b'\x00\x01 not http\r\n' * 3
                                                ).hex(), 'cuts': [],
                        'gaps': [0]}, S.eof(after=1001)]
        elif px == 'silent':
            psteps.append({'op': 'silence'})
        conn['proxy'] = {'steps': psteps,
                         'then_server': px in ('ok', 'ok_split')}
        for st in conn['server']:
            if st.get('op') == 'await_request':
                st['nth'] = 2
    if case.get('cuts'):
        conn['short_reads'] = {'*': 1 + case.get('cut_seed', 0) % 7}
    if case.get('pongs'):
        conn['react'] = {'pong': {'delay': 1000, 'limit': case['pongs']}}
    url = 'ws://example.test/'
    ws = {}
    req = case.get('req')
    if req in ('path', 'all'):
        url += u'\u4e2d\u6587/\u0416'
    if req in ('query', 'all'):
        url += u'?q=\u20ac&r=\U0001F600'
    if req in ('agent', 'all'):
        ws['agent'] = u'Agent/\u03a9 \u20ac'
    if req in ('proto', 'all'):
        ws['protocols'] = [u'chat', u'\u0447\u0430\u0442']
    if case.get('proxy'):
        ws['proxies'] = {'http': 'http://proxy.test:3128'}
    if case.get('compress'):
        ws['compress'] = True
    return {
        'url': url,
        'ws': ws,
        'epoch': case.get('epoch', 0),
        'connect': {'poll': case.get('poll', 5),
                    'ping_rate': case.get('ping_rate', 30),
                    'ping_timeout': case.get('ping_timeout'),
                    'close_timeout': case.get('close_timeout', 30)},
        'conns': [conn],
        'app': _app(case['app']),
        'max_polls': 4000 + 2 * nbytes,
    }


def execute(case):
    res = Result()
    tr = netsim.run(build(case))
    res.stats.update(tr.world.stats)
    res.sim_us = tr.world.now
    res.digest = tr.digest()
    names = [e.name for e in tr.events]
    for k, m in oracle.trace_sanity(tr):
        res.bad('C07/' + k, '%s | events=%s' % (m, names[-10:]))
    if not tr.finished and not tr.hang and not tr.escaped:
        res.bad('C07/not_finished', 'iteration ended without StopIteration')
    # calls made by the application may only raise WebSocketError subclasses
    for c in tr.calls:
        if c.outcome == 'raised' and not c.exc_is_wse:
            res.xobs.append('C09/app_call_raised_' + c.exc)
    for n, p in (('ready', 'reached_ready'), ('rejected', 'reached_rejected'),
                 ('protocol_error', 'reached_protocol_error'),
                 ('unresponsive', 'reached_unresponsive'),
                 ('closed', 'reached_closed'), ('connect_fail', 'connect_fail')):
        if n in names:
            res.stats['probe:' + p] += 1
    for e in tr.events:
        if e.name == 'disconnected':
            res.stats['probe:graceful' if e.snap[1] else 'probe:nongraceful'] += 1
    if case.get('req'):
        res.stats['probe:non_ascii_request'] += 1
    if case.get('proxy'):
        res.stats['probe:via_proxy_' + (
            'ok' if case['proxy'].startswith('ok') else 'refusing')] += 1
    if any(t.startswith('fullread') for t in case['tokens']) and \
            'binary' in names:
        res.stats['probe:read_filled_buffer_exactly'] += 1
    if case['tokens'] and case['tokens'][-1] == 'drip':
        res.stats['probe:reads_that_complete_nothing'] += 1
        ready = [e for e in tr.events if e.name == 'ready']
        if ready and tr.finished:
            p = float(case.get('poll', 5))
            bounds = []
            if case.get('ping_timeout'):
                bounds.append(case['ping_timeout'] + p + 1)
            if case.get('close_timeout') and case['app'] in (
                    'close_on_ready', 'early_bird', 'send_after_close'):
                bounds.append(case['close_timeout'] + 3 * p + 1)
            took = (tr.events[-1].t - ready[0].t) / 1e6
            if bounds and took > min(bounds):
                res.bad('C07/timer_starved_by_reads',
                        'the server dripped bytes that complete no message; '
                        'a timer should have ended the iteration within '
                        '%.1f s of Ready, it ended after %.1f s (events %s)'
                        % (min(bounds), took, names[-4:]))
    if case['tokens'] and case['tokens'][-1] in ('hold', 'drip') and \
            tr.finished:
        res.stats['probe:ended_by_timer_only'] += 1
    res.nontrivial = len(names) > 1
    res.sig = ','.join(n[:4] for n in names if n != 'poll') + '|' + \
        ','.join(sorted(k for k in tr.world.stats if k.startswith('fault:')))
    res.sample = {'tokens': case['tokens'][:12], 'app': case['app'],
                  'faults': case.get('faults'), 'events': names[:25]}
    return res
