"""C16 - persist() reconnects forever with bounded, growing, resettable
back-off."""
from .. import netsim, oracle, peer, scen as S, streams as ST
from ..runner import Result

ID = 'C16'
LEVEL = 'exploration'
RULE = ('the real persist() around a real WebSocket on the simulated '
        'network: 3-40 attempts whose outcomes are drawn from {resolution '
        'failure, refused, request write failure, rejected, dropped before '
        'Ready, dropped after Ready, graceful server close, protocol error, '
        'ping timeout}; (min_wait, max_wait) from a grid incl. (0,0), (1,1), '
        '(0.5,1000); random() owned by the simulator and biased to 0.0 and '
        '1-2^-53 so both bounds are tight; the virtual exit event is set at '
        'a seeded back-off.  Oracle: exactly one BackOff between attempts, '
        'nothing after the exit back-off and no end before it, pass-through '
        'equality with what connect() produced (teed at the connect '
        'boundary), connect() arguments, delay bounds / growth / reset, '
        'wait(delay) == BackOff.delay.  Non-trivial = >= 3 attempts incl. '
        'one that reached Ready; distinct = distinct (outcome sequence, '
        'waits, draws) signatures')
SHRINK_LISTS = [('outcomes',)]
EXPECTED_PROBES = ['reset_after_ready', 'limit_capped_by_max_wait',
                   'limit_reached_with_draw_near_1', 'draw_zero',
                   'exit_at_first_backoff', 'zero_wait_config',
                   'long_failure_run', 'close_while_connecting',
                   'limit_beyond_2_10', 'falsy_exit_event']

OUTCOMES = ['gaierror', 'refused', 'request_fail', 'rejected',
            'drop_before_ready', 'drop_after_ready', 'graceful',
            'protocol_error', 'ping_timeout', 'graceful_then_rst',
            'client_closes_then_rst']
WAITS = [(0, 0), (0, 1), (5, 30), (1, 1), (0.5, 1000), (3, 3.5), (0, 30),
         (2, 70),
         # (limits that keep doubling beyond 2^10 and 2^16 seconds)
         (0, 3600), (10, 100000), (0, 10 ** 7)]
ONE = 1.0 - 2.0 ** -53


def plan(tier):
    return [('seeded', 6000 if tier == 'quick' else 120000),
            ('marathon', 16 if tier == 'quick' else 400)]


def make_case(family, i, rng, tier):
    if family == 'marathon':
        # more than a thousand consecutive attempts that never reach Ready
        n = rng.choice([1030, 1100, 1300])
        mn, mx = rng.choice(WAITS)
        return {'outcomes': [rng.choice(['gaierror', 'refused'])
                             for _ in range(n)],
                'min_wait': mn, 'max_wait': mx, 'poll': 5, 'ping_rate': 30,
                'ping_timeout': None,
                'draws': [rng.choice([0.0, ONE, 0.5]) for _ in range(7)],
                'stop_at': None, 'app_sends': False,
                'close_on_connecting': None}
    n = rng.choice([3, 4, 6, 10, 20, 40])
    mode = rng.choice(['mixed', 'mixed', 'fail_run', 'mostly_ready'])
    if rng.random() < 0.08:
        n, mode = 30, 'all_fail'
    outs = []
    for k in range(n):
        if mode == 'all_fail':
            o = rng.choice(['gaierror', 'refused', 'request_fail'])
        elif mode == 'fail_run':
            o = rng.choice(['gaierror', 'refused', 'request_fail', 'rejected',
                            'drop_before_ready']) if rng.random() < 0.9 \
                else rng.choice(OUTCOMES)
        elif mode == 'mostly_ready':
            o = rng.choice(['drop_after_ready', 'graceful', 'protocol_error',
                            'ping_timeout', 'refused', 'graceful_then_rst',
                            'client_closes_then_rst'])
        else:
            o = rng.choice(OUTCOMES)
        outs.append(o)
    mn, mx = rng.choice(WAITS)
    draws = [rng.choice([0.0, ONE, ONE, 0.5, rng.random()]) for _ in range(n)]
    return {'outcomes': outs, 'min_wait': mn, 'max_wait': mx,
            'poll': rng.choice([5, 1, 0.5]),
            'ping_rate': rng.choice([30, 0, 2]),
            'ping_timeout': rng.choice([None, 4, 9]),
            'draws': draws,
            'stop_at': rng.choice([None, None, 0, 1, rng.randrange(0, n)]),
            # every argument of persist() by position, in the documented order
            'positional': rng.random() < 0.3,
            # the caller's event object is false while it is not set
            'falsy_event': rng.random() < 0.25,
            'app_sends': rng.random() < 0.4,
            # close() from the Connecting handler of one attempt: that attempt
            # fails, persist() must carry on
            'close_on_connecting': rng.choice([None, None, None,
                                               rng.randrange(0, n)])}


def _conn(outcome, k, case):
    fr = peer.enc_frame(1, b'hello %d' % k) + peer.enc_frame(9, b'p')
    hs = S.handshake_steps()
    if outcome == 'gaierror':
        return {'resolve': 'gaierror'}
    if outcome == 'refused':
        return {'addrs': [{'connect': 'refused'}, {'connect': 'refused'}]}
    if outcome == 'request_fail':
        return {'server': [], 'faults': [{'op': 'sendall', 'k': 0,
                                          'kind': 'epipe'}]}
    if outcome == 'rejected':
        return {'server': S.handshake_steps(accept='other_key') +
                [S.eof(after=1000)]}
    if outcome == 'drop_before_ready':
        return {'server': hs + [S.eof()], 'cut_at': 20 + k % 60,
                'cut_kind': ['eof', 'rst'][k % 2]}
    if outcome == 'drop_after_ready':
        return {'server': hs + [S.send(fr), {'op': ['eof', 'rst'][k % 2],
                                             'after': 1500000}]}
    if outcome == 'graceful':
        return {'server': hs + [S.send(fr), S.send(peer.enc_frame(
            8, peer.enc_close_payload(1000, 'bye')), after=700000),
            {'op': 'await_close', 'timeout': 3000000}, S.eof()]}
    if outcome == 'graceful_then_rst':
        # the closing handshake completes, then the server aborts the TCP
        # connection (RST) instead of closing it
        return {'server': hs + [S.send(fr), S.send(peer.enc_frame(
            8, peer.enc_close_payload(1000, 'bye')), after=700000),
            {'op': 'await_close', 'timeout': 3000000},
            S.rst(after=[0, 150001, 600001][k % 3])]}
    if outcome == 'client_closes_then_rst':
        # (the application closes at the first Text, see build)
        return {'server': hs + [S.send(fr),
                                {'op': 'await_close', 'timeout': 3000000},
                                S.send(peer.enc_frame(
                                    8, peer.enc_close_payload(1000, 'ok'))),
                                S.rst(after=[0, 150001, 600001][k % 3])],
                }
    if outcome == 'protocol_error':
        return {'server': hs + [S.send(fr), S.send(peer.enc_frame(6, b'x')),
                                S.eof(after=1000)]}
    if outcome == 'ping_timeout':
        if case.get('ping_timeout'):
            return {'server': hs + [S.send(fr), {'op': 'silence'}]}
        return {'server': hs + [S.send(fr), S.eof(after=2500000)]}
    raise ValueError(outcome)


def build(case):
    outs = case['outcomes']
    conns = [_conn(o, k, case) for k, o in enumerate(outs)]
    stop_at = case.get('stop_at')
    if stop_at is None or stop_at >= len(outs):
        stop_at = len(outs) - 1
    app = []
    if case.get('app_sends'):
        app = [{'when': {'name': 'text'}, 'do': [
            {'op': 'send_text', 'text': u'reply'}]},
            {'when': {'name': 'back_off'}, 'do': [
                {'op': 'send_text', 'text': u'while down'}]}]
    for k, o in enumerate(outs):
        if o == 'client_closes_then_rst':
            app.append({'when': {'name': 'text', 'attempt': k, 'nth': 0},
                        'do': [{'op': 'close', 'code': 1000,
                                'reason': 'done'}]})
    if case.get('close_on_connecting') is not None:
        app.append({'when': {'name': 'connecting',
                             'attempt': case['close_on_connecting']},
                    'do': [{'op': 'close'}]})
    return {'url': 'ws://example.test/feed',
            'persist': {'poll': case['poll'], 'min_wait': case['min_wait'],
                        'max_wait': case['max_wait'],
                        'ping_rate': case['ping_rate'],
                        'ping_timeout': case['ping_timeout'],
                        'stop_at': stop_at,
                        'positional': bool(case.get('positional')),
                        'falsy_event': bool(case.get('falsy_event'))},
            'random': case['draws'], 'conns': conns, 'app': app,
            'max_polls': 50000, 'max_events': 50000,
            # 1300 attempts with waits of up to 1000 s are months of
            # simulated time: the clock budget is about hangs, not about that
            'max_time_us': 10 ** 17}, stop_at


def execute(case):
    res = Result()
    sc, stop_at = build(case)
    tr = netsim.run(sc)
    w = tr.world
    res.stats.update(w.stats)
    res.sim_us = w.now
    res.digest = tr.digest()
    names = [e.name for e in tr.events]
    mn, mx = case['min_wait'], case['max_wait']
    if tr.hang:
        res.bad('C16/hang', tr.hang)
    if tr.escaped:
        res.bad('C16/escaped', '%s %s' % tr.escaped)
    # ---- structure: attempt, BackOff, attempt, BackOff ...
    groups = []
    cur = []
    backoffs = []
    for e in tr.events:
        if e.name == 'back_off':
            groups.append(cur)
            cur = []
            backoffs.append(e)
        else:
            cur.append(e)
    trailing = cur
    if trailing:
        res.bad('C16/events_after_exit_backoff',
                'events after the last BackOff: %s' % [e.name for e in trailing])
    if len(backoffs) != stop_at + 1:
        res.bad('C16/ended_%s' % ('early' if len(backoffs) < stop_at + 1
                                  else 'late'),
                'exit event set at back-off #%d, persist() yielded %d '
                'BackOffs; finished=%s' % (stop_at, len(backoffs), tr.finished))
    if not tr.finished and not tr.hang and not tr.escaped:
        res.bad('C16/not_finished', 'generator did not stop')
    for k, g in enumerate(groups):
        gn = [e.name for e in g]
        probs = oracle.automaton(g, True)
        for kind, m in probs:
            res.bad('C16/attempt_sequence/' + kind, 'attempt %d: %s' % (k, m))
        if gn.count('connecting') != 1:
            res.bad('C16/backoff_count_between_attempts',
                    'between BackOffs %d events named connecting: %s' % (
                        gn.count('connecting'), gn))
    # ---- pass-through equality at the connect boundary
    for k, (g, rec) in enumerate(zip(groups, tr.connect_args)):
        a, kw, inner = rec
        if [id(e.obj) for e in g] != [id(x) for x in inner]:
            res.bad('C16/pass_through',
                    'attempt %d: connect() produced %s, persist() yielded %s'
                    % (k, [x.name for x in inner], [e.name for e in g]))
        want = {'poll': case['poll'], 'ping_rate': case['ping_rate'],
                'ping_timeout': case['ping_timeout']}
        got = dict(kw)
        if a or any(got.get(x) != want[x] for x in want):
            res.bad('C16/connect_arguments',
                    'connect(%r, %r), configured %r' % (a, kw, want))
    if len(tr.connect_args) != len(groups):
        res.bad('C16/connect_calls', '%d connect() calls, %d attempts' % (
            len(tr.connect_args), len(groups)))
    # ---- delays
    k_fail = 0
    rng_i = 0
    reset_seen = False
    for j, (g, b) in enumerate(zip(groups, backoffs)):
        reached = any(e.name == 'ready' for e in g)
        k_fail = 0 if reached else k_fail + 1
        span = mx - mn
        limit = mn + min(span, 2 ** k_fail)
        d = b.snap[1]
        draw = case['draws'][j % len(case['draws'])]
        if reached:
            reset_seen = True
        if k_fail >= 6:
            res.stats['probe:long_failure_run'] += 1
        if k_fail > 10 and span > 1024 and draw >= ONE:
            res.stats['probe:limit_beyond_2_10'] += 1
        if 2 ** k_fail > span:
            res.stats['probe:limit_capped_by_max_wait'] += 1
        tol = 1e-9 * max(1.0, abs(limit))
        if d < mn - tol or d > limit + tol:
            res.bad('C16/delay_out_of_bounds',
                    'BackOff #%d delay %r not in [%r, %r] (k=%d consecutive '
                    'attempts without Ready, draw %r)' % (j, d, mn, limit,
                                                          k_fail, draw))
        elif draw >= ONE:
            res.stats['probe:limit_reached_with_draw_near_1'] += 1
            if d < limit - max(tol, 1e-9 * limit) - 1e-12 and \
                    d < mn + (limit - mn) * (1 - 1e-9) - 1e-12:
                res.bad('C16/limit_too_low',
                        'BackOff #%d: with a draw of 1-2^-53 the delay %r '
                        'does not reach the limit %r (k=%d)' % (j, d, limit,
                                                                k_fail))
        elif draw == 0.0:
            res.stats['probe:draw_zero'] += 1
            if abs(d - mn) > tol:
                res.bad('C16/min_wait_not_honoured', 'draw 0.0 -> delay %r, '
                        'min_wait %r' % (d, mn))
        if reached and j + 1 < len(backoffs):
            res.stats['probe:reset_after_ready'] += 1
        if j < len(tr.backoff_waits):
            if tr.backoff_waits[j][2] != d:
                res.bad('C16/wait_differs_from_backoff',
                        'exit_event.wait(%r) after BackOff(delay=%r)' % (
                            tr.backoff_waits[j][2], d))
        else:
            res.bad('C16/no_wait_after_backoff', 'BackOff #%d' % j)
    if case.get('close_on_connecting') is not None:
        res.stats['probe:close_while_connecting'] += 1
    if case.get('falsy_event'):
        res.stats['probe:falsy_exit_event'] += 1
    if stop_at == 0:
        res.stats['probe:exit_at_first_backoff'] += 1
    if mx == 0:
        res.stats['probe:zero_wait_config'] += 1
    for c in tr.calls:
        if c.outcome == 'raised' and not c.exc_is_wse:
            res.bad('C16/app_call_raised_' + c.exc, c.op)
    res.nontrivial = len(groups) >= 3 and reset_seen
    res.sig = '%s|%s|%s|%s' % (','.join(o[:4] for o in case['outcomes']),
                               (mn, mx), stop_at,
                               [round(x, 3) for x in case['draws'][:6]])
    res.sample = {'outcomes': case['outcomes'][:10], 'min_wait': mn,
                  'max_wait': mx, 'stop_at': stop_at,
                  'delays': [b.snap[1] for b in backoffs[:8]],
                  'draws': case['draws'][:8]}
    return res
