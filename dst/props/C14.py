"""C14 - every Ping is answered by exactly one matching Pong, in order."""
from .. import netsim, oracle, peer, scen as S, streams as ST
from ..runner import Result

ID = 'C14'
LEVEL = 'exploration'
RULE = ('seeded streams with 0-20 Pings (payload lengths 0..125, arbitrary '
        'bytes) anywhere - between fragments, many per read, in the read of '
        'the handshake reply, in the read of a Close - x auto_pong on/off x '
        'an application that writes in reaction to every event x application '
        'close() at a seeded event x a transport fault on the k-th Pong write.'
        '  Oracle on the decoded client wire: library Pongs == Ping payloads '
        'in arrival order while no Close was sent, each Pong before any '
        'application write made in reaction to that or a later event, none '
        'after the Close, none at all with auto_pong off; a failed Pong write '
        'does not remove the Ping event or the events of data already read.  '
        'Non-trivial = >= 1 Ping received after Ready; distinct = distinct '
        '(event names, ping positions, mode) signatures')
RULE += (' '
         'Also: a refused close() call (over-long reason) followed by Pings, '
         'really compressed data messages with Pings between their '
         'fragments, a `pair` family (two connections interleaved), '
         'ThreadSim families (application close() racing the automatic '
         'Pong), and on a failed Pong write everything that had ARRIVED by '
         'then must still be delivered.')
SHRINK_LISTS = [('items',), ('items', '*', 'inner', '*'), ('cuts',)]
EXPECTED_PROBES = ['ping_between_fragments', 'many_pings_one_read',
                   'ping_in_reply_read', 'ping_then_close_same_read',
                   'auto_pong_off', 'ping_after_client_close',
                   'pong_write_failed', 'app_write_after_pong_checked',
                   'violation_behind_pings', 'compression_negotiated',
                   'threaded_close_vs_pong', 'refused_close_call_then_pings',
                   'two_connections_interleaved',
                   'unread_data_queued_at_failed_pong',
                   'ping_while_other_session_stalled']


TSLOT = 3000
_CLOSE = {'op': 'close', 'code': 1000, 'reason': 'bye'}
TBASES = [
    {'name': 'close_vs_auto_pong', 'threads': [[_CLOSE]], 'loop': ['ping']},
    {'name': 'close_text_vs_two_pings',
     'threads': [[_CLOSE], [{'op': 'send_text', 'text': 'T2-0-' + 'q' * 80}]],
     'loop': ['ping', 'ping']},
    # an application thread is inside a send (holds the write lock, half of
    # its frame out) when the Ping is handled; the consumer of the event loop
    # reacts to the Ping event with a send of its own: the Pong comes first
    {'name': 'sender_vs_ping_with_reaction',
     'threads': [[{'op': 'send_binary', 'hex': (b'T1-0-' + b'b' * 300).hex()},
                  {'op': 'send_text', 'text': 'T1-1-' + 'c' * 90}]],
     'loop': ['ping'],
     'app': [{'when': {'name': 'ping'},
              'do': [{'op': 'send_text', 'text': 'reaction-to-ping'}]}]},
]
_TINFO = {}


def _tinfo(b):
    from . import _threads as T
    if b not in _TINFO:
        _TINFO[b] = T.default_steps(TBASES[b])
    return _TINFO[b]


_RACE = [None]


def _race():
    from . import _threads as T
    if _RACE[0] is None:
        _RACE[0] = T.RaceFamily(TBASES)
    return _RACE[0]


def plan(tier):
    return [('seeded', 12000 if tier == 'quick' else 250000),
            ('threaded_sweep', len(TBASES) * TSLOT * 2),
            ('threaded_race', _race().size(tier)),
            ('threaded_random', 300 if tier == 'quick' else 30000),
            ('pair', 800 if tier == 'quick' else 30000),
            ('two_sessions', 200 if tier == 'quick' else 10000),
            ('many', 40 if tier == 'quick' else 1500)]


def _ping(rng):
    n = rng.choice([0, 1, 2, 124, 125, rng.randrange(0, 126)])
    return {'kind': 'ping', 'hex': S.rand_bytes(rng, n).hex()}


def _threaded_case(family, i, rng, tier='quick'):
    import copy
    from . import _threads as T
    if family == 'threaded_race':
        # sets of pre-emption sites among the points where the threads touch
        # the same field (see _threads.race_candidates)
        case = _race().case(i, tier)
    elif family == 'threaded_sweep':
        senders_first = i >= len(TBASES) * TSLOT
        i %= len(TBASES) * TSLOT
        b = i // TSLOT
        n, nt = _tinfo(b)
        slot = i % TSLOT
        step, who = slot // (nt + 1), slot % (nt + 1)
        if step < 2 or step > n + 40:
            return None
        tid = who if who < nt else T.threadsim.CLOCK
        case = copy.deepcopy(TBASES[b])
        pts = [[step, tid]]
        if senders_first:
            pts = [[1, 1]] + pts
        case['schedule'] = {'kind': 'preempt', 'points': pts}
    else:
        case = copy.deepcopy(TBASES[rng.randrange(len(TBASES))])
        case['schedule'] = {'kind': 'random', 'seed': rng.getrandbits(32),
                            'stay': rng.choice([0.5, 0.8, 0.95])} \
            if rng.random() < 0.6 else \
            {'kind': 'pct', 'seed': rng.getrandbits(32),
             'd': rng.choice([1, 2, 3]), 'horizon': 500}
    case['threaded'] = True
    return case


def _execute_threaded(case):
    """A Close written by an application thread races the event loop's
    automatic Pong: after the Close no Pong may follow, before it every Ping
    is answered."""
    from . import _threads as T
    res = Result()
    sc, tr, sched = T.run(case)
    w = tr.world
    res.stats.update(w.stats)
    res.sim_us = w.now
    res.digest = T.digest(tr, sched)
    if sched.error is not None:
        raise RuntimeError('ThreadSim harness error: %r' % (sched.error,))
    if tr.hang:
        res.bad('C14/threaded/hang', tr.hang)
    if tr.escaped:
        res.bad('C14/threaded/escaped', '%s %s' % tr.escaped)
    wire = oracle.Wire(w.socks[-1])
    ops = [f.opcode for f in wire.frames]
    res.stats['probe:threaded_close_vs_pong'] += 1
    if peer.OP_CLOSE in ops and not wire.incomplete:
        k = ops.index(peer.OP_CLOSE)
        if peer.OP_PONG in ops[k + 1:]:
            res.bad('C14/threaded/pong_after_close',
                    'wire %s | %s' % ([peer.OPNAME.get(o, o) for o in ops],
                                      T.site_signature(sched)))
        npings = sum(1 for e in tr.events if e.name == 'ping' and
                     e.wire_len <= wire.frames[k].start)
        npongs = ops[:k].count(peer.OP_PONG)
        if npongs > len([e for e in tr.events if e.name == 'ping']):
            res.bad('C14/threaded/too_many_pongs', '%r' % ops)
    if case.get('app') and not wire.incomplete:
        # the Pong precedes what the application writes in reaction to the
        # Ping event (and it is there at all: nothing closed, nothing failed)
        react = [i for i, f in enumerate(wire.frames)
                 if f.opcode == 1 and f.payload == b'reaction-to-ping']
        pongs = [i for i, f in enumerate(wire.frames)
                 if f.opcode == peer.OP_PONG]
        res.stats['probe:threaded_reaction_to_ping'] += bool(react)
        if react and (not pongs or pongs[0] > react[0]):
            res.bad('C14/threaded/pong_after_reaction',
                    'wire %s | %s' % ([peer.OPNAME.get(o, o) for o in ops],
                                      T.site_signature(sched)))
        if any(e.name == 'ping' for e in tr.events) and not pongs and \
                peer.OP_CLOSE not in ops:
            res.bad('C14/threaded/ping_not_answered',
                    'wire %s | %s' % ([peer.OPNAME.get(o, o) for o in ops],
                                      T.site_signature(sched)))
    res.nontrivial = peer.OP_CLOSE in ops or bool(case.get('app'))
    res.sig = 'thr|%s|%s' % (case['name'], T.site_signature(sched))
    res.sample = {'base': case['name'], 'schedule': case.get('schedule'),
                  'wire': [peer.OPNAME.get(o, o) for o in ops]}
    return res


def make_case(family, i, rng, tier):
    if family.startswith('threaded'):
        return _threaded_case(family, i, rng, tier)
    if family == 'two_sessions':
        # ThreadSim, two WebSocket objects with their own event-loop threads:
        # a send on one is stuck in sendall while the other receives a Ping
        # (scenario of C09's two_sessions family)
        from . import C09
        c = C09._two_sessions_case(rng)
        c['fail'] = 'ping'
        return c
    if family == 'pair':
        cs = []
        for _ in range(2):
            c = make_case('seeded', i, rng, tier)
            while c['mode'] == 'fault':
                c = make_case('seeded', i, rng, tier)
            c['gaps'] = [rng.choice([0, 0, 1000])]
            if c.get('seg') == 'bytes':
                c['seg'] = 'cuts'
            cs.append(c)
        n = rng.choice([2, 3, 5, 8])
        return {'pair': cs,
                'order': [rng.randrange(2) for _ in range(n)] + [0, 1]}
    items = []
    for _ in range(rng.choice([1, 2, 4, 8, 14]) if family != 'many' else
                   rng.choice([260, 300, 520, 1030])):
        r = rng.random()
        if r < 0.5:
            items.append(_ping(rng))
        elif r < 0.6:
            items.append({'kind': 'pong', 'hex': S.rand_bytes(rng, 3).hex()})
        else:
            it = ST.data_item(rng, rng.choice([0, 5, 130, 400]))
            it['inner'] = [[_ping(rng) for _ in range(rng.choice([0, 1, 1, 3]))]
                           for _ in it['inner']]
            it['z'] = rng.random() < 0.75
            items.append(it)
    case = {'items': items, 'auto_pong': rng.random() < 0.75,
            'react': rng.random() < 0.6,
            'compress': rng.random() < 0.25}
    if rng.random() < 0.3:
        case['sclose'] = {'code': 1000, 'reason': u'done'}
    mode = rng.choice(['plain', 'plain', 'app_close', 'fault', 'bad_tail',
                       'bad_close'])
    if family == 'many':
        # a long-lived connection: hundreds of Pings, each answered
        mode = 'plain'
        case['react'] = False
    case['mode'] = mode
    enc = ST.encode_items(items)
    if mode == 'app_close' and enc.expected:
        k = rng.randrange(len(enc.expected))
        name = enc.expected[k][0]
        nth = sum(1 for e in enc.expected[:k] if e[0] == name)
        case['app_close_at'] = {'name': name, 'nth': nth}
    if mode == 'bad_close' and enc.expected:
        # the application calls close() with arguments it refuses; nothing
        # is written, the connection goes on and Pings are still answered
        k = rng.randrange(len(enc.expected))
        name = enc.expected[k][0]
        nth = sum(1 for e in enc.expected[:k] if e[0] == name)
        case['bad_close_at'] = {'name': name, 'nth': nth}
        case['bad_close_reason'] = rng.choice([124, 130, 300])
    if mode == 'bad_tail':
        case.pop('sclose', None)
        case['bad_opcode'] = rng.choice([3, 7, 0xB, 0xF])
        case['auto_pong'] = True
    if mode == 'fault':
        case['auto_pong'] = True
        case['react'] = False
        npings = sum(1 for e in enc.expected if e[0] == 'ping')
        case['fault_pong'] = rng.randrange(0, max(1, npings))
        case['fault_kind'] = rng.choice(['epipe', 'reset', 'exc'])
    case.update(ST.seg_fields(rng))
    case['gaps'] = [rng.choice([0, 0, 1000]) for _ in range(3)]
    if case['seg'] == 'bytes':
        case['gaps'] = [0]
    return case


MARK = u'reaction'


def build(case, with_fault=True):
    items = list(case['items'])
    if case.get('sclose'):
        items.append(dict(case['sclose'], kind='close'))
    transform = None
    if case.get('compress'):
        # most data messages really are compressed (RSV1 on the first frame
        # only), Pings travel between their fragments
        dp = peer.DeflatePeer()

        def transform(payload, it):
            if it.get('z', True):
                return dp.compress(payload), 1
            return payload, 0
    enc = ST.encode_items(items, transform=transform)
    if case.get('mode') == 'bad_tail':
        # a protocol violation right behind the Pings, in the same reads:
        # the Pings that came first must still be reported and answered
        ST.emit(enc, case.get('bad_opcode', 0xB), b'bad')
    app = []
    if case.get('react'):
        for n in ('ready', 'text', 'binary', 'ping', 'pong', 'closing'):
            ops = [{'op': 'send_text', 'text': MARK}]
            if n == 'ping' and not case.get('auto_pong'):
                ops.append({'op': 'send_pong', 'hex': '6f776e'})
            app.append({'when': {'name': n}, 'do': ops})
    if case.get('bad_close_at'):
        app.insert(0, {'when': dict(case['bad_close_at']),
                       'do': [{'op': 'close', 'code': 1000,
                               'reason': 'r' * case.get('bad_close_reason',
                                                        130)}]})
    if case.get('app_close_at'):
        app.insert(0, {'when': dict(case['app_close_at']),
                       'do': [{'op': 'close', 'code': 1000, 'reason': 'bye'}]})
    if case.get('sclose'):
        tail = [{'op': 'await_close', 'timeout': 5000000}, S.eof()]
    else:
        tail = [S.eof(after=1000000)]
    extra, ws = (), None
    if case.get('compress'):
        extra = [b'Sec-WebSocket-Extensions: permessage-deflate']
        ws = {'compress': True}
    sc = ST.stream_scenario(case, enc, tail, app=app, extra_headers=extra,
                            ws=ws,
                            connect={'ping_rate': 0, 'poll': 5,
                                     'auto_pong': case.get('auto_pong', True)})
    if with_fault and case.get('mode') == 'fault':
        # sendall #0 is the upgrade request; the passive application writes
        # nothing, so sendall #(k+1) is the k-th Pong
        sc['conns'][0]['faults'] = [{'op': 'sendall',
                                     'k': case['fault_pong'] + 1,
                                     'kind': case.get('fault_kind', 'epipe')}]
    return sc, enc


def execute(case):
    if case.get('threaded'):
        return _execute_threaded(case)
    if case.get('two_sessions'):
        from . import C09
        r = C09._execute_two(case)
        r.stats['probe:ping_while_other_session_stalled'] += 1
        return r
    if 'pair' in case:
        return _execute_pair(case)
    res = Result()
    sc, enc = build(case)
    tr = netsim.run(sc)
    return _judge(res, case, sc, enc, tr)


def _execute_pair(case):
    """Two connections alive in one process, advanced in an interleaved
    order by one consumer: a Ping on one is answered from its own bytes."""
    res = Result()
    a, b = case['pair']
    sa, ea = build(a)
    sb, eb = build(b)
    traces = netsim.run_multi(netsim.pair_scenario(sa, sb, case.get('order')))
    res.stats['probe:two_connections_interleaved'] += 1
    _judge(res, a, sa, ea, traces[0])
    h, sig, nt = res.digest, res.sig, res.nontrivial
    _judge(res, b, sb, eb, traces[1])
    res.digest = h + res.digest
    res.sig = sig + '||' + res.sig
    res.nontrivial = nt or res.nontrivial
    return res


def _judge(res, case, sc, enc, tr):
    res.stats.update(tr.world.stats)
    res.sim_us = tr.world.now
    res.digest = tr.digest()
    names = tr.names()
    st = tr.world.socks[-1]
    wire = oracle.Wire(st)
    auto = case.get('auto_pong', True)
    mode = case.get('mode')
    tag = mode if auto else 'auto_off'
    # byte ranges written by application calls
    app_ranges = [(c.wire_before, c.wire_before + c.wrote, c)
                  for c in tr.calls if c.wrote]

    def by_app(f):
        return any(a <= f.start < b for a, b, _ in app_ranges)

    closes = [f for f in wire.frames if f.opcode == peer.OP_CLOSE]
    close_start = closes[0].start if closes else None
    lib_pongs = [f for f in wire.frames
                 if f.opcode == peer.OP_PONG and not by_app(f)]
    ping_events = [e for e in tr.events if e.name == 'ping']
    got = [oracle.payload_of(e.snap) for e in oracle.msg_events(tr)]
    rlen = sc['_rlen']
    cuts = sc['conns'][0]['server'][1]['cuts']

    # probes about where the Pings were
    ping_ends = [enc.expected_ends[i] + rlen for i, e in
                 enumerate(enc.expected) if e[0] == 'ping']
    if ping_ends:
        bounds = [0] + list(cuts) + [sc['_total']]
        per_read = {}
        for pe in ping_ends:
            for j in range(len(bounds) - 1):
                if bounds[j] < pe <= bounds[j + 1]:
                    per_read[j] = per_read.get(j, 0) + 1
        if any(v >= 2 for v in per_read.values()):
            res.stats['probe:many_pings_one_read'] += 1
        if 0 in per_read:
            res.stats['probe:ping_in_reply_read'] += 1
        if case.get('sclose') and (len(bounds) - 2) in per_read:
            res.stats['probe:ping_then_close_same_read'] += 1
    if enc.probes.get('ctl_between_fragments'):
        res.stats['probe:ping_between_fragments'] += 1
    if case.get('bad_close_at'):
        res.stats['probe:refused_close_call_then_pings'] += 1
        for c in tr.calls:
            if c.op == 'close' and (c.outcome != 'raised' or c.wrote):
                res.xobs.append('C03/close/oversize_reason_accepted')

    if not auto:
        res.stats['probe:auto_pong_off'] += 1
        if lib_pongs:
            res.bad('C14/auto_off/library_wrote_pong',
                    'auto_pong=False but %d Pong(s) not written by the '
                    'application: %r' % (len(lib_pongs), lib_pongs[:3]))
    elif mode != 'fault':
        # Pings whose event was yielded while no Close had been written
        answered = []
        late = 0
        for e in ping_events:
            if close_start is None or e.wire_len <= close_start:
                answered.append(e.snap[2])
            else:
                late += 1
        if late:
            res.stats['probe:ping_after_client_close'] += 1
        if [f.payload for f in lib_pongs] != answered:
            res.bad('C14/%s/pongs_differ' % tag,
                    'Pings answered-by-right %r..., Pongs on the wire %r...' % (
                        [a[:8] for a in answered][:6],
                        [f.payload[:8] for f in lib_pongs][:6]))
        if close_start is not None and any(f.start > close_start
                                           for f in lib_pongs):
            res.bad('C14/%s/pong_after_close' % tag, 'wire %r' % (
                [f.summary()['op'] for f in wire.frames],))
        # each Pong precedes what the application wrote in reaction to that
        # or a later event
        if len(lib_pongs) == len(answered):
            k = 0
            for e in ping_events:
                if not (close_start is None or e.wire_len <= close_start):
                    continue
                pong = lib_pongs[k]
                k += 1
                for a, b, c in app_ranges:
                    if c.at_event >= e.index and a < pong.start:
                        res.bad('C14/%s/pong_after_app_write' % tag,
                                'Pong for the Ping of event %d written at '
                                'offset %d, after the application write made '
                                'at event %d (offset %d)' % (
                                    e.index, pong.start, c.at_event, a))
                        break
                else:
                    if app_ranges:
                        res.stats['probe:app_write_after_pong_checked'] += 1
                    continue
                break
        # the event stream itself
        exp = list(enc.expected)
        if mode == 'bad_tail':
            res.stats['probe:violation_behind_pings'] += 1
            if names.count('protocol_error') != 1:
                res.bad('C14/bad_tail/no_protocol_error', 'events %r' % names[-6:])
        if case.get('app_close_at') and case.get('sclose'):
            exp[-1] = ('closed',) + exp[-1][1:]
        if got != exp:
            res.bad('C14/%s/events_disturbed' % tag,
                    'expected %d message events, got %d: %r' % (
                        len(exp), len(got), names[-8:]))
    else:
        # a Pong write failed: dropped silently
        marks = tr.world.fault_marks
        if marks:
            res.stats['probe:pong_write_failed'] += 1
            k, delivered, arrived = marks[0][2], marks[0][3], marks[0][6]
            # everything that had reached the client's socket when the write
            # failed is still readable (also after EPIPE / a reset)
            must = [e for e, end in zip(enc.expected, enc.expected_ends)
                    if end + rlen <= arrived]
            if arrived > delivered:
                res.stats['probe:unread_data_queued_at_failed_pong'] += 1
            if got[:len(must)] != must:
                res.bad('C14/fault/events_lost_after_failed_pong',
                        '%d bytes had arrived (%d read) when Pong #%d failed; '
                        'the %d messages complete in them must be delivered, '
                        'got %d: %r' % (arrived, delivered, k - 1, len(must),
                                        len(got), names[-8:]))
            if got != enc.expected[:len(got)]:
                res.bad('C14/fault/events_wrong', 'events %r' % names[-8:])
            disc = [e for e in tr.events if e.name == 'disconnected']
            if not disc:
                res.bad('C14/fault/no_terminal_event', 'events %r' % names[-6:])
    for k, m in oracle.trace_sanity(tr):
        res.xobs.append('C07/' + k)
        if k in ('hang', 'escaped'):
            res.bad('C14/%s/%s' % (tag, k), m)
    if case.get('compress'):
        res.stats['probe:compression_negotiated'] += 1
        for f in wire.frames:
            if f.opcode == peer.OP_PONG and f.rsv1:
                res.bad('C14/compressed/pong_with_rsv1',
                        'a Pong was written with RSV1 set: %r' % f)
                break
    for k, m in oracle.wire_problems(wire, bool(case.get('compress'))):
        res.xobs.append('C03/' + k)
    for f in wire.frames:
        # a Pong is an answer only if a server can read it as one: masked,
        # FIN set, 7-bit length form (control frames have no other)
        if f.opcode == peer.OP_PONG:
            p = peer.client_frame_problems(f, bool(case.get('compress')))
            if p:
                res.bad('C14/%s/pong_malformed' % tag,
                        'Pong written as an invalid frame (%s): %r' % (
                            '+'.join(p), f))
                break
    res.nontrivial = len(ping_events) >= 1
    res.sig = '%s|%s|%s|%s' % (tag, ','.join(n[:3] for n in names),
                               case.get('app_close_at'), len(cuts))
    res.sample = {'mode': mode, 'auto_pong': auto, 'react': case.get('react'),
                  'pings': len(ping_ends), 'events': names[:24],
                  'wire': [f.summary()['op'] for f in wire.frames][:16]}
    return res
