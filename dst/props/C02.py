"""C02 - the event stream does not depend on how TCP segments the stream."""
import copy
import importlib
import itertools
import random

from .. import netsim, oracle, peer, scen as S, streams as ST
from ..runner import Result

ID = 'C02'
LEVEL = 'exploration'
RULE = ('metamorphic: one server byte stream (valid C01 streams, C04 streams '
        'with one protocol violation, C05 UTF-8 streams, C06 compressed '
        'streams, C10 handshake-reply variants) is delivered once in a single '
        'read and then under K seeded cut sets (always 1-byte delivery for '
        'short streams, reply-alone, cuts at every structural boundary +-1); '
        'events (minus Poll) and the raw bytes the client wrote must be '
        'identical.  For streams whose frame part is <= 12 bytes every one of '
        'the 2^(n-1) cut sets is run (exhaustive sub-sweep), and the reply is '
        'cut at every single offset and at all offset pairs in its last 8 '
        'bytes.  Non-trivial = reference run reached Ready or Rejected; '
        'distinct = distinct (base stream layout, cut set) signatures')
RULE += (' '
         'A quarter of the seeded cases run with a second, unrelated '
         'connection of the same process being read between the reads of the '
         'one under test, a fifth through an HTTP proxy whose answer is '
         'segmented as well.')
SHRINK_LISTS = [('cutsets',), ('cutsets', '*'), ('bcase', 'items'),
                ('bcase', 'trailing')]
EXPECTED_PROBES = ['large_frame_then_cut', 'cut_inside_header', 'cut_inside_reply', 'one_byte_delivery',
                   'cut_inside_utf8_char', 'variant_runs',
                   'other_connection_interleaved', 'proxy_answer_segmented']

BASES = ['C01', 'C04', 'C05', 'C06', 'C10']
USABLE = {'C01': ['seeded'], 'C04': ['seeded'], 'C05': ['seeded'],
          'C06': ['seeded'], 'C10': ['seeded', 'size_edge']}


def _base(name):
    try:
        return importlib.import_module('dst.props.' + name)
    except ImportError:
        return None


def plan(tier):
    q = tier == 'quick'
    return [('seeded', 1500 if q else 60000),
            ('short_exhaustive', 40 if q else 600),
            ('reply_cuts', 12 if q else 60),
            ('large_frame', 60 if q else 2000)]


APP_MODES = ['passive', 'echo', 'closer']


def _app(mode):
    if mode == 'passive':
        return []
    if mode == 'echo':
        return [{'when': {'name': 'text'}, 'do': [
                    {'op': 'send_text', 'text': u'got text é'}]},
                {'when': {'name': 'binary'}, 'do': [
                    {'op': 'send_binary', 'hex': '00ff10'}]},
                {'when': {'name': 'ping'}, 'do': [
                    {'op': 'send_ping', 'hex': '6170'}]},
                {'when': {'name': 'closing'}, 'do': [
                    {'op': 'send_text', 'text': u'bye'}]}]
    if mode == 'closer':
        return [{'when': {'name': 'text', 'nth': 0}, 'do': [
                    {'op': 'close', 'code': 1000, 'reason': 'done'}]},
                {'when': {'name': 'binary', 'nth': 1}, 'do': [
                    {'op': 'close', 'code': 1001, 'reason': ''}]},
                {'when': {'name': 'pong'}, 'do': [
                    {'op': 'send_text', 'text': u'after pong'}]}]
    raise ValueError(mode)


def _small_items(rng):
    """Items whose encoded frames total <= 12 bytes."""
    while True:
        items = []
        for _ in range(rng.randrange(1, 4)):
            r = rng.random()
            if r < 0.3:
                items.append({'kind': rng.choice(['ping', 'pong']),
                              'hex': S.rand_bytes(rng, rng.randrange(0, 3)).hex()})
            else:
                kind = rng.choice(['text', 'binary'])
                it = {'kind': kind, 'cuts': [], 'lenforms': [None],
                      'inner': []}
                if kind == 'text':
                    it['text'] = rng.choice([u'', u'a', u'é', u'€', u'a€',
                                             u'\U0001F600', u'ab'])
                    n = len(it['text'].encode('utf-8'))
                else:
                    n = rng.randrange(0, 5)
                    it['hex'] = S.rand_bytes(rng, n).hex()
                if n and rng.random() < 0.5:
                    it['cuts'] = [rng.randrange(0, n + 1)]
                    it['lenforms'] = [None, None]
                    it['inner'] = [[]]
                items.append(it)
        enc = ST.encode_items(items)
        if 2 <= len(enc.stream) <= 12:
            return items


def make_case(family, i, rng, tier):
    if family == 'seeded':
        avail = [b for b in BASES if _base(b) is not None]
        bname = avail[i % len(avail)]
        mod = _base(bname)
        plan_b = mod.plan(tier)
        # an allow-list: families added to a base module later (several
        # objects, reconnects ...) are not single-stream scenarios
        fams = [f for f, _ in plan_b if f in USABLE[bname]]
        fam = rng.choice(fams)
        cnt = dict(plan_b)[fam]
        sub = random.Random(rng.getrandbits(64))
        bcase = mod.make_case(fam, rng.randrange(cnt), sub, tier)
        if bcase is None:
            return None
        case = {'base': bname, 'bcase': bcase,
                'app': rng.choice(APP_MODES) if bname in ('C01', 'C04')
                else 'passive',
                'k': 8 if tier == 'quick' else 16,
                'cs_seed': rng.getrandbits(32)}
        if rng.random() < 0.2 and bname != 'C10':
            # through an HTTP proxy: the proxy's answer is segmented too
            case['via_proxy'] = rng.getrandbits(16)
        elif rng.random() < 0.25:
            # a second, unrelated connection of the same process is being
            # read between the reads of this one (seeded interleaving)
            case['other'] = {'order': [rng.randrange(2) for _ in range(
                rng.choice([2, 3, 5, 8]))] + [0, 1],
                'kind': rng.choice(['text', 'text', 'binary', 'mixed'])}
        return case
    if family == 'short_exhaustive':
        items = _small_items(rng)
        bcase = {'items': items, 'auto_pong': True, 'seg': 'one'}
        if rng.random() < 0.3:
            bcase['close'] = {'code': 1000, 'reason': ''}
            # keep the frame part <= 12 bytes
            if len(ST.encode_items(items).stream) + 4 > 12:
                del bcase['close']
        return {'base': 'C01', 'bcase': bcase, 'app': rng.choice(APP_MODES),
                'exhaustive': 'frames', 'glue': rng.random() < 0.5}
    if family == 'large_frame':
        # a frame of more than 64 / 128 / 256 KiB followed by small ones;
        # the read that completes the large payload also carries the first
        # bytes of what follows, and the frame that follows is cut again
        n = rng.choice([65536, 65537, 131072, 131073, 140000, 262145,
                        300000])
        kind = rng.choice(['binary', 'text'])
        big = {'kind': kind, 'cuts': [], 'lenforms': [None], 'inner': [],
               'fill': [n, rng.choice(['41', '00ff', '6162637a']
                                      if kind == 'binary' else
                                      ['41', '6162637a'])]}
        after = [{'kind': 'text', 'text': u'the message after the large one',
                  'cuts': [], 'lenforms': [None], 'inner': []},
                 {'kind': 'ping', 'hex': '70696e67'},
                 {'kind': 'binary', 'hex': '8905696e6e6572', 'cuts': [],
                  'lenforms': [None], 'inner': []}]
        rng.shuffle(after)
        items = [big] + after
        if rng.random() < 0.3:
            items = [after[0], big] + after[1:]
        bcase = {'items': items, 'auto_pong': True, 'seg': 'one'}
        return {'base': 'C01', 'bcase': bcase, 'app': rng.choice(APP_MODES),
                'large': True, 'cs_seed': rng.getrandbits(32)}
    if family == 'reply_cuts':
        items = [{'kind': 'text', 'text': u'hé', 'cuts': [1],
                  'lenforms': [None, None], 'inner': [[]]},
                 {'kind': 'ping', 'hex': '70'}]
        bcase = {'items': items, 'auto_pong': True, 'seg': 'one'}
        return {'base': 'C01', 'bcase': bcase, 'app': 'echo',
                'exhaustive': 'reply', 'part': i}
    raise ValueError(family)


def _scenario(case):
    mod = _base(case['base'])
    bcase = dict(case['bcase'])
    bcase.pop('prelude', None)      # one connection: its stream is re-cut
    out = mod.build(bcase)
    sc = out[0] if isinstance(out, tuple) else out
    sc = copy.deepcopy(sc)
    conn = sc.setdefault('connect', {})
    conn['ping_rate'] = 0
    conn.setdefault('close_timeout', 30)
    if case.get('app') and case['app'] != 'passive':
        sc['app'] = _app(case['app'])
    if case.get('via_proxy') is not None:
        c0 = sc['conns'][0]
        c0['proxy'] = {'steps': [{'op': 'await_request', 'nth': 1},
                                 {'op': 'reply', 'tmpl': PROXY_200.hex(),
                                  'cuts': [], 'gaps': [0]}],
                       'then_server': True}
        c0['server'][0] = dict(c0['server'][0], nth=2)
        sc.setdefault('ws', {})
        sc['ws'] = dict(sc['ws'] or {}, proxies={'http': 'http://proxy.test:3128'})
    return sc


PROXY_200 = (b'HTTP/1.1 200 Connection established\r\nVia: 1.1 proxy.test\r\n'
             b'Proxy-Agent: sim/1.0\r\n\r\n')


def _proxy_cuts(case, nvar):
    rng = random.Random((case['via_proxy'] << 8) + nvar)
    n = len(PROXY_200)
    if nvar % 4 == 0:
        return list(range(1, n))
    return sorted(set(rng.randrange(1, n) for _ in range(rng.randrange(1, 5))))


def _structural_cuts(data, rlen):
    """Offsets at every structural boundary of the stream, +-1."""
    pts = set()
    for m in (b'\r\n\r\n', b'\r\n', b' 101 '):
        k = data.find(m)
        while 0 <= k < rlen:
            pts.update((k, k + 1, k + len(m) - 1, k + len(m)))
            k = data.find(m, k + 1)
    frames, _ = peer.decode_frames(data, rlen)
    for f in frames[:40]:
        hdr = f.end - len(f.payload) - f.start
        pts.update((f.start, f.start + 1, f.start + hdr - 1, f.start + hdr,
                    f.start + hdr + 1, f.end - 1, f.end))
    return sorted(p for p in pts if 0 < p < len(data))


def cutsets_for(case, total, rlen, data):
    if case.get('cutsets') is not None:
        return case['cutsets']
    ex = case.get('exhaustive')
    if ex == 'frames':
        n = total - rlen
        offs = list(range(rlen + 1, total))
        sets = []
        for r in range(len(offs) + 1):
            for comb in itertools.combinations(offs, r):
                cs = list(comb)
                if not case.get('glue'):
                    cs = [rlen] + cs
                sets.append(cs)
        return sets
    if ex == 'reply':
        part = case.get('part', 0)
        singles = [[c] for c in range(1, total)]
        tail = list(range(rlen - 8, rlen + 3))
        pairs = [list(c) for c in itertools.combinations(tail, 2)]
        triples = [list(c) for c in itertools.combinations(tail, 3)]
        allsets = singles + pairs + triples + [list(range(1, total))]
        nparts = 12
        return allsets[part % nparts::nparts]
    rng = random.Random(case.get('cs_seed', 0))
    sets = []
    if case.get('large'):
        frames, _ = peer.decode_frames(data, rlen)
        bigs = [k for k, f in enumerate(frames) if len(f.payload) >= 65536]
        for k in bigs[:1]:
            f = frames[k]
            nxt = frames[k + 1] if k + 1 < len(frames) else None
            if nxt is None:
                continue
            ln = nxt.end - nxt.start
            for j in sorted(set([1, 2, 3, ln // 2, ln - 1])):
                if 0 < j < ln:
                    sets.append([f.end + j])
                    sets.append([f.end - rng.randrange(1, 70000), f.end + j])
            sets.append([f.end + ln + 1])
            sets.append([f.start + 1, f.end - 1, f.end + 1])
        return sets
    if total <= 1500:
        sets.append(list(range(1, total)))          # one byte at a time
    sets.append([rlen])                              # reply alone
    struct_pts = _structural_cuts(data, rlen)
    if struct_pts:
        sets.append(struct_pts[:400])
        sets.append(sorted(rng.sample(struct_pts, min(len(struct_pts),
                                                      rng.randrange(1, 6)))))
    while len(sets) < case.get('k', 8):
        k = rng.choice([1, 2, 3, 5, 9, 30])
        if total > 2:
            sets.append(sorted(set(rng.randrange(1, total) for _ in range(k))))
        else:
            break
    return sets


def _other_scenario(kind):
    """The other connection: non-ASCII text / binary / fragments, delivered
    in 3-byte reads (every read ends inside a character or a header)."""
    frames = b''
    for k in range(12):
        if kind == 'binary' or (kind == 'mixed' and k % 2):
            frames += peer.enc_frame(2, bytes([0xf0 + k % 8, 0x9f, 0x80]) * 5)
        else:
            frames += peer.enc_frame(1, (u'\u20ac\U0001F600\u00e9 %d ' % k
                                         ).encode('utf-8') * 2,
                                     fin=1)
        if k % 4 == 1:
            # (no Pings: the other connection must not write, its masking
            # keys would come out of the same seeded stream)
            frames += peer.enc_frame(1, b'part \xe2', fin=0) + \
                peer.enc_frame(10, b'p') + \
                peer.enc_frame(0, b'\x82\xac end', fin=1)
    reply = S.reply_tmpl()
    total = ST.reply_len(reply) + len(frames)
    step = {'op': 'reply', 'tmpl': (reply + frames).hex(), 'accept': 'ok',
            'cuts': list(range(3, total, 3)), 'gaps': [4001]}
    return {'url': 'ws://other.test/', 'connect': {'ping_rate': 0},
            'conns': [{'server': [{'op': 'await_request'}, step,
                                  S.eof(after=1000)]}]}


def _run(sc, case):
    other = case.get('other')
    if not other:
        return netsim.run(sc)
    # the reads of this connection are 15 ms apart and its poll interval is
    # 10 ms: it yields Poll between two reads, which is when the consumer
    # advances the other connection
    sc = copy.deepcopy(sc)
    sc.setdefault('connect', {})['poll'] = 0.01
    st = sc['conns'][0]['server'][1]
    if st.get('cuts'):
        st['gaps'] = [15001]
    trs = netsim.run_multi(netsim.pair_scenario(
        sc, _other_scenario(other['kind']), other['order']))
    return trs[0]


def _obs(tr, polls=False):
    # Poll events are timer events; with every segment arriving at the same
    # simulated instant they too must not depend on the segmentation
    evs = [e.snap for e in tr.events if polls or e.name != 'poll']
    outs = [bytes(s.out_bytes) for s in tr.world.socks]
    calls = [(c.op, c.outcome, c.exc, c.wrote) for c in tr.calls]
    return evs, outs, calls


def execute(case):
    res = Result()
    sc = _scenario(case)
    step = sc['conns'][0]['server'][1]
    tmpl = bytes.fromhex(step['tmpl'])
    # the stream as the client will see it (accept substituted: 28 bytes)
    rlen = sc.get('_rlen')
    if rlen is None:
        idx = tmpl.find(b'\r\n\r\n')
        rlen = (idx + 4 if idx >= 0 else len(tmpl))
        if b'@@ACCEPT@@' in tmpl[:rlen]:
            rlen += ST.REPLY_LEN_DELTA
    data = tmpl.replace(b'@@ACCEPT@@', b'A' * 28)
    total = len(data)
    step['cuts'] = []
    step['gaps'] = [0]
    ref = _run(sc, case)
    with_polls = not case.get('other')
    robs = _obs(ref, with_polls)
    names = ref.names()
    h = [ref.digest()]
    res.sim_us = ref.world.now
    sets = cutsets_for(case, total, rlen, data)
    nvar = 0
    for cs in sets:
        sc2 = copy.deepcopy(sc)
        st2 = sc2['conns'][0]['server'][1]
        st2['cuts'] = cs
        st2['gaps'] = [0]
        if case.get('via_proxy') is not None:
            sc2['conns'][0]['proxy']['steps'][1]['cuts'] = \
                _proxy_cuts(case, nvar)
            res.stats['probe:proxy_answer_segmented'] += 1
        if case.get('other') and len(cs) > 300:
            continue
        tr = _run(sc2, case)
        nvar += 1
        h.append(tr.digest())
        res.sim_us += tr.world.now
        obs = _obs(tr, with_polls)
        if any(rlen < c < total for c in cs):
            res.stats['probe:cut_inside_frames'] += 1
        if any(0 < c < rlen for c in cs):
            res.stats['probe:cut_inside_reply'] += 1
        if len(cs) >= total - 1:
            res.stats['probe:one_byte_delivery'] += 1
        if obs != robs:
            what = 'events' if obs[0] != robs[0] else (
                'writes' if obs[1] != robs[1] else 'calls')
            res.bad('C02/%s/%s_differ' % (case['base'], what),
                    'cuts=%s: reference %s vs %s' % (
                        cs[:12], _diff(robs, obs)[0], _diff(robs, obs)[1]))
            break
        if tr.hang or tr.escaped:
            res.bad('C02/%s/hang_or_escape' % case['base'],
                    '%s %s' % (tr.hang, tr.escaped))
            break
    res.stats['probe:variant_runs'] += nvar
    if case.get('large') and nvar:
        res.stats['probe:large_frame_then_cut'] += 1
    if case.get('other'):
        res.stats['probe:other_connection_interleaved'] += 1
    frames, _ = peer.decode_frames(data, rlen)
    for f in frames[:50]:
        if f.opcode in (0, 1) and any(b >= 0x80 for b in f.payload):
            res.stats['probe:cut_inside_utf8_char'] += 1
            break
    hs = [(f.start, f.end - len(f.payload)) for f in frames[:50]]
    if any(a < c < b for cs in sets[:50] for c in cs for a, b in hs):
        res.stats['probe:cut_inside_header'] += 1
    import hashlib
    res.digest = hashlib.sha256(''.join(h).encode()).hexdigest()
    res.nontrivial = 'ready' in names or 'rejected' in names
    res.sig = '%s|%s|%d|%s' % (case['base'], ','.join(n[:3] for n in names),
                               total, hashlib.sha256(repr(sets[:40]).encode()
                                                     ).hexdigest()[:10])
    res.sample = {'base': case['base'], 'stream_bytes': total,
                  'reply_bytes': rlen, 'cutsets': len(sets),
                  'first_cutsets': [c[:10] for c in sets[:3]],
                  'app': case.get('app'), 'events': names[:20]}
    return res


def _diff(a, b):
    for part in range(3):
        if a[part] != b[part]:
            x, y = a[part], b[part]
            for i in range(max(len(x), len(y))):
                xi = x[i] if i < len(x) else None
                yi = y[i] if i < len(y) else None
                if xi != yi:
                    return (repr(xi)[:160], repr(yi)[:160])
    return ('', '')


def evidence_extra(tier, agg):
    return {'exhaustive_subsweeps': {
        'short_exhaustive': 'all 2^(n-1) cut sets of the frame part for '
                            'every short stream of that family',
        'reply_cuts': 'every single cut offset of the stream + all pairs and '
                      'triples of offsets in the last 8 bytes of the reply'}}
