"""C17 - each connect() starts from a clean slate."""
import copy

from .. import netsim, oracle, peer, scen as S, streams as ST
from ..runner import Result

ID = 'C17'
LEVEL = 'exploration'
RULE = ('differential: a chain of 2-4 connect() calls on ONE WebSocket '
        'object, whose earlier connections end mid HTTP header / mid frame '
        'header / mid extended length / mid payload / mid fragmented text '
        '(validator mid code point) / mid compressed message with context '
        'takeover / while closing / rejected / failed to connect / protocol '
        'error / abandoned by the consumer / cleanly, is compared with a '
        'freshly constructed WebSocket run (first, so that it cannot inherit '
        'pollution) against the same last script, which is sensitive to '
        'leftovers (compression back-references both ways, text split inside '
        'code points, fragments, timers, a closing handshake).  Equality of '
        'normalised events, relative virtual timestamps, request (minus key) '
        'and unmasked frames; plus the expected-by-construction event list; '
        'plus pairwise different keys.  Non-trivial = the last connection '
        'reached Ready; distinct = distinct (ending kinds, last-script '
        'layout) signatures')
RULE += (' ThreadSim families: an application thread is inside close() or '
         'a send while the consumer abandons the event loop and connects the '
         'object again (release-then-connect, rebind, or the old generator '
         'kept); one pre-emption at every step, and the application thread '
         'taken off the CPU for 2-3 simulated seconds at every step of its '
         'call; unless a Close was written on the second connection, sends '
         'made there must be accepted.')
RULE += (' '
         'Abandonment mechanisms: break, raise, close(), rebind (new '
         'generator before the old one is released) and hold (old generator '
         'released at an event of the last connection); earlier connections '
         'may negotiate other deflate parameters or decline; the last '
         'connection may be closed by the application between Connected and '
         'Ready with a server that never answers.')
SHRINK_LISTS = [('prev',), ('items',), ('schedule', 'points')]
EXPECTED_PROBES = ['prev_mid_http', 'prev_mid_frame_header', 'prev_mid_ext_len',
                   'prev_mid_payload', 'prev_mid_fragment_text',
                   'prev_mid_compressed', 'prev_while_closing', 'prev_rejected',
                   'prev_connect_fail', 'prev_abandoned', 'prev_protocol_error',
                   'prev_connect_fail_then_close', 'prev_close_on_connecting',
                   'prev_close_truncated_reason', 'prev_bad_utf8_text',
                   'prev_inflate_error', 'prev_sent_compressed',
                   'last_declines_compression', 'last_with_compression',
                   'compress_switched_off_before_last',
                   'threaded_reconnect', 'thread_frozen']

ENDINGS = ['mid_http', 'mid_frame_header', 'mid_ext_len', 'mid_payload',
           'mid_fragment_text', 'mid_compressed', 'while_closing', 'rejected',
           'connect_fail', 'abandoned', 'protocol_error', 'clean',
           'request_fail', 'connect_fail_then_close', 'close_on_connecting',
           'close_truncated_reason', 'bad_utf8_text', 'inflate_error',
           'sent_compressed', 'failover']

EXT = b'Sec-WebSocket-Extensions: permessage-deflate'


def plan(tier):
    return [('seeded', 8000 if tier == 'quick' else 150000),
            ('threaded_sweep', len(TBASES) * TSLOT * 2),
            ('threaded_random', 400 if tier == 'quick' else 40000)]


# ThreadSim: an application thread is inside close() / a send on the object
# while the consumer abandons the event loop and connects the object again
TSLOT = 2000
_CLOSE = {'op': 'close', 'code': 1000, 'reason': 'bye'}
_TXT = {'op': 'send_text', 'text': 'T1-0-' + 'w' * 50}
TBASES = [
    {'name': 'close_vs_reconnect', 'threads': [[_CLOSE]],
     'abandon': {'name': 'poll', 'nth': 1}},
    {'name': 'close_vs_reconnect_at_text', 'threads': [[_CLOSE]],
     'abandon': {'name': 'text', 'nth': 0}},
    {'name': 'send_close_vs_rebind', 'threads': [[_TXT, _CLOSE]],
     'abandon': {'name': 'poll', 'nth': 1}, 'rebind': True},
    {'name': 'two_closers_vs_reconnect', 'threads': [[_CLOSE], [_TXT, _CLOSE]],
     'abandon': {'name': 'poll', 'nth': 2}},
    # the consumer keeps the abandoned generator: the old socket stays open
    {'name': 'close_vs_reconnect_old_kept', 'threads': [[_CLOSE]],
     'abandon': {'name': 'poll', 'nth': 1}, 'hold': True},
    # a compressed send of the old connection is stuck in sendall for 40 s
    # (its peer stopped reading, the old socket is still open) while the new
    # connection sends compressed messages of its own
    {'name': 'stalled_compressed_send_vs_reconnect', 'threads': [[_TXT]],
     'abandon': {'name': 'poll', 'nth': 1}, 'hold': True, 'compress': True,
     'stall': {'tid': 1, 'k': 0, 'us': 40000001}},
]
_TINFO = {}


def _tscenario(case):
    first = {'server': S.handshake_steps() + [
        S.send(peer.enc_frame(1, b'one'), after=300007),
        {'op': 'silence'}]}
    second = {'server': S.handshake_steps() + [
        S.send(peer.enc_frame(1, b'two'), after=700003),
        S.send(peer.enc_frame(1, b'three'), after=1800007),
        S.send(peer.enc_frame(1, b'four'), after=1500001),
        S.eof(after=1500009)]}
    if case.get('compress'):
        for c in (first, second):
            c['server'][1] = S.handshake_steps([EXT])[1]
    return {'url': 'ws://example.test/',
            'ws': {'compress': bool(case.get('compress'))},
            'stall': case.get('stall'),
            'connect': {'poll': 0.25, 'ping_rate': 0, 'close_timeout': 30},
            'conns': [first, second], 'n_connects': 2,
            'rebind': bool(case.get('rebind')), 'hold': bool(case.get('hold')),
            'threads': case['threads'],
            'schedule': case.get('schedule') or {'kind': 'preempt',
                                                 'points': []},
            'start_at': {'name': 'ready'}, 'max_steps': 60000,
            'app': [{'when': dict(case['abandon'], attempt=0),
                     'do': [{'op': 'abandon', 'how': 'break'}]},
                    {'when': {'name': 'text', 'attempt': 1},
                     'do': [{'op': 'send_text',
                             'text': 'reply on the second connection'}]}]}


def _tinfo(b):
    from .. import threadsim
    if b not in _TINFO:
        c = dict(TBASES[b])
        tr, sched = threadsim.run(_tscenario(c))
        last = max([x.step1 for x in tr.tcalls] or [0])
        _TINFO[b] = (min(max(last, 200) + 200, sched.steps),
                     len(c['threads']) + 1)
    return _TINFO[b]


def _threaded_case(family, i, rng):
    import copy
    from .. import threadsim
    if family == 'threaded_sweep':
        senders_first = i >= len(TBASES) * TSLOT
        i %= len(TBASES) * TSLOT
        b = i // TSLOT
        n, nt = _tinfo(b)
        slot = i % TSLOT
        step, who = slot // (nt + 1), slot % (nt + 1)
        if step < 2 or step > n:
            return None
        tid = who if who < nt else threadsim.CLOCK
        case = copy.deepcopy(TBASES[b])
        if senders_first:
            # the application thread runs first and is taken off the CPU for
            # two simulated seconds at this step of its call: meanwhile the
            # consumer abandons the loop and connects again
            if who >= nt or who == 0:
                return None
            case['schedule'] = {'kind': 'preempt', 'points': [[1, 1]],
                                'freeze': [[step, who,
                                            [2000003, 3300001][step % 2]]]}
        else:
            case['schedule'] = {'kind': 'preempt', 'points': [[step, tid]]}
    else:
        # (random walks may let simulated seconds pass between two lines of
        # a runnable thread: not for the base whose oracle is about time)
        fair = [b_ for b_ in TBASES if not b_.get('stall')]
        case = copy.deepcopy(fair[rng.randrange(len(fair))])
        case['schedule'] = {'kind': 'random', 'seed': rng.getrandbits(32),
                            'stay': rng.choice([0.5, 0.8, 0.95])} \
            if rng.random() < 0.6 else \
            {'kind': 'pct', 'seed': rng.getrandbits(32),
             'd': rng.choice([1, 2, 3]), 'horizon': 800}
    case['threaded'] = True
    return case


def _execute_threaded(case):
    """The second connection of the object starts clean although another
    thread was inside close() / a send while the first one was abandoned:
    unless a Close was written on the second connection, a send made there
    while it is up is accepted."""
    from .. import threadsim
    import hashlib
    res = Result()
    tr, sched = threadsim.run(_tscenario(case))
    w = tr.world
    res.stats.update(w.stats)
    for k, v in sched.stats.items():
        res.stats['probe:' + k] += v
    res.sim_us = w.now
    h = hashlib.sha256(tr.digest().encode())
    h.update(repr(sorted(sched.switches.items())).encode())
    h.update(repr([(c.tid, c.k, c.outcome, c.exc) for c in tr.tcalls]
                  ).encode())
    res.digest = h.hexdigest()
    if sched.error is not None:
        raise RuntimeError('ThreadSim harness error: %r' % (sched.error,))
    if tr.hang:
        res.bad('C17/threaded/hang', tr.hang)
    if tr.escaped:
        res.bad('C17/threaded/escaped', '%s %s' % tr.escaped)
    atts = oracle.split_attempts(tr.events)
    res.stats['probe:threaded_reconnect'] += 1
    if len(atts) >= 2 and len(w.socks) >= 2:
        last = atts[-1]
        names = [e.name for e in last]
        wire2 = oracle.Wire(w.socks[-1])
        closes = [f for f in wire2.frames if f.opcode == peer.OP_CLOSE]
        first_idx = last[0].index
        # a close() whose first line ran after the new connection state was
        # installed is a close() OF the new connection (made while it was
        # still connecting): that the new connection then refuses sends is
        # what close() means; only calls that began on the old connection
        # must leave the new one alone
        t_new = sched.state_created[-1] if sched.state_created else None
        late_close = t_new is not None and any(
            st_ > t_new for _, st_ in sched.close_began)
        if late_close:
            res.stats['probe:close_called_on_the_new_connection'] += 1
        for c in tr.calls:
            if late_close:
                break
            if c.at_event is None or c.at_event < first_idx:
                continue
            if c.outcome == 'raised' and c.exc in ('WebSocketClosing',
                                                   'WebSocketClosed') \
                    and not closes and 'ready' in names:
                res.bad('C17/threaded/clean_connection_refuses_send',
                        'second connection: ready, no Close written on it, '
                        'yet %s at %s raised %s | events %s | calls of the '
                        'other threads %s | %s' % (
                            c.op, tr.events[c.at_event].name, c.exc,
                            names[-6:],
                            [(x.tid, x.op['op'], x.outcome) for x in tr.tcalls],
                            site_sig(sched)))
                break
        if case.get('stall') and sched.stalled_on == 0 and \
                last[-1].t - last[0].t > 12000000:
            res.bad('C17/threaded/second_connection_held_up',
                    'the second connection (server done after 5.5 s) took '
                    '%.1f s: it waited for the stalled send of the first '
                    'one | events %s' % ((last[-1].t - last[0].t) / 1e6,
                                         names[-5:]))
        if 'ready' in names and not closes and 'text' not in names:
            res.bad('C17/threaded/message_lost_on_clean_connection',
                    'events of the second connection: %s' % names[-6:])
        res.nontrivial = 'ready' in names
    else:
        res.nontrivial = False
    res.sig = 'thr|%s|%s' % (case['name'], site_sig(sched))
    res.sample = {'base': case['name'], 'schedule': case.get('schedule'),
                  'events': [e.name for e in tr.events][-12:],
                  'tcalls': [(x.tid, x.op['op'], x.outcome, x.exc)
                             for x in tr.tcalls]}
    return res


def site_sig(sched):
    return ';'.join('%d>%d@%s' % (a, b, w_ if isinstance(w_, str) else
                                  '%s:%d' % w_)
                    for a, b, w_ in sched.switch_sites[:12])


def make_case(family, i, rng, tier):
    if family.startswith('threaded'):
        return _threaded_case(family, i, rng)
    n = rng.choice([1, 1, 2, 3])
    prev = []
    for _ in range(n):
        e = {'kind': rng.choice(ENDINGS), 'seed': rng.getrandbits(16),
             'how': rng.choice(['eof', 'rst'])}
        if e['kind'] == 'abandoned':
            e['at'] = rng.randrange(0, 8)
            e['mech'] = rng.choice(['break', 'raise', 'close', 'rebind',
                                    'rebind', 'hold', 'hold'])
            # 'hold': the consumer keeps the abandoned generator and lets go
            # of it at this event of the LAST connection
            e['release_at'] = rng.choice(['connected', 'ready', 'text',
                                          'poll', 'ping'])
        prev.append(e)
    compress = rng.random() < 0.6 or any(
        e['kind'] in ('mid_compressed', 'inflate_error', 'sent_compressed')
        for e in prev)
    items = ST.make_items(rng, 5)
    for it in items:
        if it['kind'] in ('text', 'binary'):
            it['z'] = compress and rng.random() < 0.7
            if 'text' in it:
                it['text'] = it['text'][:300]
            else:
                it['hex'] = it['hex'][:600]
            plen = len(ST.item_payload(it))
            it['cuts'] = [min(c, plen) for c in it.get('cuts', [])][:2]
            k = len(it['cuts']) + 1
            it['lenforms'] = (it.get('lenforms') or [None])[:k]
            it['inner'] = (it.get('inner') or [])[:k - 1]
    # a leading text split inside a code point and a repeated payload
    items.insert(0, {'kind': 'text', 'text': u'€uro \U0001F600 ' * 6,
                     'cuts': [1, 8], 'lenforms': [None, None, None],
                     'inner': [[], []], 'z': compress})
    items.append({'kind': 'text', 'text': u'€uro \U0001F600 ' * 6,
                  'cuts': [], 'lenforms': [None], 'inner': [], 'z': compress})
    if rng.random() < 0.3:
        # the first data message of the last connection is a fragmented
        # BINARY message whose continuation frames are not UTF-8
        items.insert(0, {'kind': 'binary', 'hex': (b'\xff\xfe\x80\xc0' * 8).hex(),
                         'cuts': [5, 13], 'lenforms': [None, None, None],
                         'inner': [[], []], 'z': False})
    for e in prev:
        if compress and rng.random() < 0.4:
            e['ext'] = rng.choice(['server_no_context_takeover',
                                   'client_no_context_takeover',
                                   'server_max_window_bits=9',
                                   'client_max_window_bits=9',
                                   'server_no_context_takeover; '
                                   'client_no_context_takeover'])
    for e in prev:
        e['declines'] = compress and rng.random() < 0.25 and e['kind'] not in (
            'mid_compressed', 'inflate_error', 'sent_compressed')
    return {'prev': prev, 'items': items, 'compress': compress,
            'headers': rng.choice([[], [], [['X-Custom', 'one']],
                                   [['Authorization', 'Bearer t'],
                                    ['X-Two', '2']]]),
            'mech': next((e['mech'] for e in prev if e['kind'] == 'abandoned'),
                         None),
            # odd microsecond values: data never arrives exactly on a multiple of
            # poll / ping_rate, where float rounding (which depends on the
            # absolute time) would decide between > and <=
            'gaps': [rng.choice([0, 300007, 1200011]) for _ in range(3)],
            'cut_seed': rng.getrandbits(32), 'seg': 'cuts', 'ncuts': 4,
            # early_app: close() between Connected and Ready of the last
            # connection, and a server that never answers it: only the
            # close timer (started from the session clock) ends it
            'close_last': rng.choice(['server', 'app', 'none', 'early_app']),
            # the server of the LAST connection may decline the extension
            # although earlier connections negotiated it
            'last_declines': compress and rng.random() < 0.25,
            # the application switches the compress attribute off before the
            # last connect; the server enables the extension regardless
            'toggle_off': compress and rng.random() < 0.1}


def _prev_conn(e, compress, attempt):
    """-> (conn spec, app rules) for an earlier connection."""
    k = e['kind']
    how = e.get('how', 'eof')
    ext = EXT
    if e.get('ext'):
        # an earlier server negotiated other parameters than the last one
        ext = EXT + b'; ' + e['ext'].encode()
    hs = S.handshake_steps([ext] if compress and not e.get('declines')
                           else ())
    end = {'op': how, 'after': 1009}
    rules = []
    if k == 'mid_http':
        return {'server': hs + [end], 'cut_at': 10 + e['seed'] % 100,
                'cut_kind': how}, rules
    if k == 'mid_frame_header':
        return {'server': hs + [S.send(b'\x81'), end]}, rules
    if k == 'mid_ext_len':
        fr = peer.enc_frame(2, b'x' * 300)
        return {'server': hs + [S.send(fr[:3]), end]}, rules
    if k == 'mid_payload':
        fr = peer.enc_frame(1, b'y' * 200)
        return {'server': hs + [S.send(fr[:50 + e['seed'] % 100]), end]}, rules
    if k == 'mid_fragment_text':
        fr = peer.enc_frame(1, b'abc\xe2\x82', fin=0)
        fr2 = peer.enc_frame(0, b'\xac and', fin=0)
        return {'server': hs + [S.send(fr + (fr2 if e['seed'] % 2 else b'')),
                                end]}, rules
    if k == 'mid_compressed':
        dp = peer.DeflatePeer()
        c1 = dp.compress(b'leftover context ' * 30)
        c2 = dp.compress(b'leftover context ' * 30 + b'second')
        data = peer.enc_frame(2, c1, rsv1=1) + \
            peer.enc_frame(2, c2[:len(c2) // 2], fin=0, rsv1=1)
        return {'server': S.handshake_steps([EXT]) + [S.send(data), end]}, \
            [{'when': {'name': 'binary', 'attempt': attempt},
              'do': [{'op': 'send_text', 'text': u'leftover context ' * 20}]}]
    if k == 'while_closing':
        return {'server': hs + [S.send(peer.enc_frame(1, b'hi')),
                                {'op': how, 'after': 1500017}]}, \
            [{'when': {'name': 'text', 'attempt': attempt},
              'do': [{'op': 'close', 'code': 1001, 'reason': 'going'}]}]
    if k == 'rejected':
        return {'server': S.handshake_steps(accept='other_key') + [end]}, rules
    if k == 'failover':
        # the host has two addresses: the first refused, the second accepted
        # (on the LAST connection it is the other way round, see _last)
        return {'server': hs + [S.send(peer.enc_frame(1, b'via second')),
                                end],
                'addrs': [{'connect': 'refused'}, {}]}, rules
    if k == 'connect_fail':
        return {'resolve': 'gaierror'} if e['seed'] % 2 else \
            {'addrs': [{'connect': 'refused'}]}, rules
    if k == 'connect_fail_then_close':
        # the application calls close() in its ConnectFail handler
        return {'addrs': [{'connect': 'refused'}]}, \
            [{'when': {'name': 'connect_fail', 'attempt': attempt},
              'do': [{'op': 'close'}, {'op': 'send_text', 'text': u'x'}]}]
    if k == 'close_on_connecting':
        # close() before any socket exists: the attempt fails, the closing
        # flag must not survive into the next connect()
        return {'server': hs + [end]}, \
            [{'when': {'name': 'connecting', 'attempt': attempt},
              'do': [{'op': 'close', 'code': 1000, 'reason': 'early'}]}]
    if k == 'close_truncated_reason':
        # a Close whose reason is cut inside a character (invalid): any
        # validator state it leaves behind must not reach the next connection
        bad = peer.enc_frame(8, b'\x03\xe8caf\xc3')
        return {'server': hs + [S.send(bad), end]}, rules
    if k == 'bad_utf8_text':
        fr = peer.enc_frame(1, b'ok \xe2\x82', fin=0) + \
            peer.enc_frame(0, b'\x41 broken', fin=1)
        return {'server': hs + [S.send(fr), end]}, rules
    if k == 'inflate_error':
        fr = peer.enc_frame(2, b'\x06\x00\x00', rsv1=1)
        return {'server': S.handshake_steps([EXT]) + [S.send(fr), end]}, rules
    if k == 'sent_compressed':
        # the client itself compressed messages on the earlier connection
        return {'server': S.handshake_steps([EXT]) + [
            S.send(peer.enc_frame(1, b'go')), {'op': how, 'after': 1500017}]}, \
            [{'when': {'name': 'text', 'attempt': attempt},
              'do': [{'op': 'send_text', 'text': u'client says €uro ' * 8},
                     {'op': 'send_binary', 'hex': '00ff' * 40}]}]
    if k == 'request_fail':
        # (half of the time most of the request, the key line included, has
        # left the machine when the write fails)
        f = {'op': 'sendall', 'k': 0, 'kind': ['reset', 'timeout'][
            e['seed'] % 2]}
        if e['seed'] % 4 < 2:
            f['partial'] = 150 + e['seed'] % 100
        return {'server': [], 'faults': [f]}, rules
    if k == 'protocol_error':
        return {'server': hs + [S.send(peer.enc_frame(1, b'ok') +
                                       peer.enc_frame(0xB, b'bad')), end]}, rules
    if k == 'abandoned':
        fr = peer.enc_frame(1, b'one') + peer.enc_frame(9, b'p') + \
            peer.enc_frame(2, b'two', fin=0)
        return {'server': hs + [S.send(fr), S.send(peer.enc_frame(1, b'x'),
                                                   after=1200019),
                                {'op': how, 'after': 3000023}]}, rules
    # clean
    return {'server': hs + [S.send(peer.enc_frame(1, b'bye')),
                            S.send(peer.enc_frame(8, peer.enc_close_payload(
                                1000, 'done'))),
                            {'op': 'await_close', 'timeout': 2000000},
                            S.eof()]}, rules


def _last(case, attempt):
    compress = case['compress'] and not case.get('last_declines')
    unsolicited = bool(case.get('toggle_off')) and compress
    if unsolicited:
        compress = False
    dp = peer.DeflatePeer()

    def transform(payload, it):
        if it.get('z') and compress:
            return dp.compress(payload), 1
        return payload, 0

    items = list(case['items'])
    if case.get('close_last') == 'server':
        items.append({'kind': 'close', 'code': 1000, 'reason': u'fin'})
    enc = ST.encode_items(items, transform=transform)
    tail = []
    if case.get('close_last') == 'server':
        tail = [{'op': 'await_close', 'timeout': 3000000}, S.eof()]
    elif case.get('close_last') == 'app':
        tail = [{'op': 'await_close', 'timeout': 9000000},
                S.send(peer.enc_frame(8, peer.enc_close_payload(1000, 'ack')),
                       after=400031), S.eof(after=1003)]
    elif case.get('close_last') == 'early_app':
        tail = [{'op': 'silence'}]
    else:
        tail = [S.eof(after=2500037)]
    sc = ST.stream_scenario(case, enc, tail,
                            extra_headers=[EXT] if compress or unsolicited
                            else ())
    conn = sc['conns'][0]
    if any(e['kind'] == 'failover' for e in case['prev']):
        # two addresses here as well: the first one accepts, the second
        # would refuse
        conn['addrs'] = [{}, {'connect': 'refused'}]
    rules = [{'when': {'name': 'text', 'nth': 0, 'attempt': attempt},
              'do': [{'op': 'send_text', 'text': u'client says €uro ' * 8},
                     {'op': 'send_text', 'text': u'client says €uro ' * 8}]},
             {'when': {'name': 'binary', 'nth': 0, 'attempt': attempt},
              'do': [{'op': 'send_binary', 'hex': '00ff' * 40,
                      'compress': False}]}]
    if case.get('close_last') == 'early_app':
        rules.append({'when': {'name': 'connected', 'attempt': attempt},
                      'do': [{'op': 'close', 'code': 1001, 'reason': 'early'}]})
    if case.get('close_last') == 'app':
        rules.append({'when': {'name': 'poll', 'nth': 2, 'attempt': attempt},
                      'do': [{'op': 'close', 'code': 1000, 'reason': 'end'}]})
    return conn, rules, enc


def build(case):
    """-> (reference scenario, chain scenario, expected events of the last)"""
    n = len(case['prev'])
    base = {'url': 'ws://example.test/clean?slate=1',
            'ws': {'compress': bool(case['compress']),
                   'protocols': ['p1'],
                   'headers': case.get('headers') or []},
            'connect': {'poll': 1, 'ping_rate': 2, 'close_timeout': 5},
            'max_polls': 20000,
            # wake-ups are 50 us late, as real ones always are a little: keeps
            # the runs away from exact float boundaries (t+1.0)-t < 1.0, which
            # depend on the absolute time and are not what is compared here
            'wake_latency': {'*': 50}}
    conn_ref, rules_ref, enc = _last(case, 0)
    ref = dict(base, conns=[conn_ref], app=rules_ref, n_connects=1)
    toggle = bool(case.get('toggle_off')) and case['compress'] and \
        not case.get('last_declines')
    if toggle:
        # the reference never offered compression
        ref['ws'] = dict(base['ws'], compress=False)
    conns = []
    rules = []
    abandon_seen = False
    for k, e in enumerate(case['prev']):
        c, r = _prev_conn(e, case['compress'], k)
        conns.append(c)
        rules.extend(r)
        if e['kind'] == 'abandoned' and not abandon_seen:
            abandon_seen = True
            rules.append({'when': {'name': ['connected', 'ready', 'poll',
                                            'text', 'ping', 'poll', 'text',
                                            'poll'][e['at'] % 8],
                                   'attempt': k, 'nth': 0},
                          'do': [{'op': 'abandon',
                                  'how': e.get('mech', 'break')}]})
    conn_last, rules_last, _ = _last(case, n)
    for e in case['prev']:
        if e['kind'] == 'abandoned' and e.get('mech') == 'hold':
            rules_last = [{'when': {'name': e.get('release_at', 'ready'),
                                    'nth': 0, 'attempt': n},
                           'do': [{'op': 'release_old'}]}] + rules_last
            break
    if toggle:
        rules_last = [{'when': {'name': 'connecting', 'attempt': n},
                       'do': [{'op': 'set_attr', 'name': 'compress',
                               'value': False}]}] + rules_last
    chain = dict(base, conns=conns + [conn_last], app=rules + rules_last,
                 n_connects=n + 1)
    return ref, chain, enc.expected


def _normalise(tr, compress):
    """Observable behaviour of the LAST connection of a trace."""
    atts = oracle.split_attempts(tr.events)
    last = atts[-1] if atts else []
    t0 = last[0].t if last else 0
    evs = [(e.snap, e.t - t0) for e in last]
    st = tr.world.socks[-1] if tr.world.socks else None
    wire_norm = None
    key = None
    if st is not None and last and last[0].name == 'connecting' and \
            st.conn is tr.world.conn_specs[tr.world.conn_index]:
        w = oracle.Wire(st)
        req = w.requests[0] if w.requests else b''
        lines = []
        for ln in req.split(b'\r\n'):
            if ln.lower().startswith(b'sec-websocket-key:'):
                key = ln.split(b':', 1)[1].strip()
                continue
            lines.append(ln)
        t_out = []
        pos = 0
        times = {}
        for seq, now, data in st.out:
            times[pos] = now - t0
            pos += len(data)
        wire_norm = (tuple(lines),
                     tuple((f.opcode, f.fin, f.rsv1, f.payload,
                            times.get(f.start)) for f in w.frames),
                     w.incomplete)
    calls = [(c.op, c.outcome, c.exc, c.wrote) for c in tr.calls
             if last and c.at_event >= last[0].index]
    return evs, wire_norm, calls, key


def execute(case):
    if case.get('threaded'):
        return _execute_threaded(case)
    res = Result()
    ref_sc, chain_sc, expected = build(case)
    tr_ref = netsim.run(ref_sc)
    tr = netsim.run(chain_sc)
    w = tr.world
    res.stats.update(w.stats)
    res.sim_us = w.now + tr_ref.world.now
    import hashlib
    res.digest = hashlib.sha256((tr_ref.digest() + tr.digest()).encode()
                                ).hexdigest()
    kinds = [e['kind'] for e in case['prev']]
    for k in kinds:
        res.stats['probe:prev_' + k] += 1
    if case['compress'] and not case.get('last_declines') and \
            not case.get('toggle_off'):
        res.stats['probe:last_with_compression'] += 1
    if case.get('last_declines'):
        res.stats['probe:last_declines_compression'] += 1
        wl = oracle.Wire(w.socks[-1])
        if any(f.rsv1 for f in wl.frames):
            res.bad('C17/rsv1_after_declined_reconnect',
                    'the last connection did not negotiate permessage-'
                    'deflate, yet the reused object wrote RSV1 frames')
    tag = kinds[-1] if kinds else 'none'
    for t_, which in ((tr_ref, 'fresh'), (tr, 'chain')):
        if t_.hang:
            res.bad('C17/%s/hang_%s' % (tag, which), t_.hang)
        if t_.escaped:
            res.bad('C17/%s/escaped_%s' % (tag, which), '%s %s' % t_.escaped)
    a = _normalise(tr_ref, case['compress'])
    b = _normalise(tr, case['compress'])
    # a new handshake key for every connection: whatever reached the wire
    # as Sec-WebSocket-Key on an earlier connection of the chain (also in a
    # request whose write failed half-way) is not used again
    seen_keys = []
    for st_ in tr.world.socks:
        raw = bytes(st_.out_bytes)
        i = raw.lower().find(b'sec-websocket-key:')
        while i >= 0:
            j = raw.find(b'\r\n', i)
            k_ = raw[i + 18:j if j >= 0 else len(raw)].strip()
            if len(k_) >= 8:
                seen_keys.append((st_.index, k_))
            i = raw.lower().find(b'sec-websocket-key:', i + 18)
    for n1 in range(len(seen_keys)):
        for n2 in range(n1 + 1, len(seen_keys)):
            k1, k2 = seen_keys[n1][1], seen_keys[n2][1]
            if seen_keys[n1][0] != seen_keys[n2][0] and (
                    k1 == k2 or (len(k1) < 24 and k2.startswith(k1))):
                res.bad('C17/%s/handshake_key_reused' % tag,
                        'connections %d and %d of the chain sent the same '
                        'Sec-WebSocket-Key %r' % (seen_keys[n1][0],
                                                  seen_keys[n2][0], k2))
                break
        else:
            continue
        break
    names_ref = [s[0][0] for s in a[0]]
    names_chain = [s[0][0] for s in b[0]]
    # the fresh object must itself behave as constructed
    got_ref = [oracle.payload_of(s[0]) for s in a[0]
               if s[0][0] in ('text', 'binary', 'ping', 'pong', 'closing',
                              'closed')]
    exp = list(expected)
    if case.get('close_last') == 'app' and got_ref and \
            got_ref[-1][0] == 'closed':
        exp = exp + [('closed', 1000, 'ack')]
    if case.get('close_last') == 'early_app':
        # the close timer may end the connection before the last segments
        # have arrived: a prefix is what construction guarantees
        res.stats['probe:closed_before_ready_on_last'] += 1
        exp = exp[:len(got_ref)]
    if case.get('toggle_off') and case['compress'] and \
            not case.get('last_declines'):
        # an extension nobody offered: the fresh object rejects the reply
        res.stats['probe:compress_switched_off_before_last'] += 1
        exp = []
        if 'rejected' not in names_ref or 'ready' in names_ref:
            res.bad('C17/fresh_object_wrong',
                    'unsolicited extension accepted by a fresh object: %s'
                    % names_ref[-8:])
    if got_ref != exp:
        res.bad('C17/fresh_object_wrong',
                'a freshly constructed WebSocket did not produce the '
                'expected events: %s' % names_ref[-8:])
    if [s[0] for s in a[0]] != [s[0] for s in b[0]]:
        i = 0
        while i < min(len(a[0]), len(b[0])) and a[0][i][0] == b[0][i][0]:
            i += 1
        res.bad('C17/%s/events_differ' % tag,
                'after previous endings %s the reused object diverges at '
                'event %d: fresh %r vs reused %r' % (
                    kinds, i, repr(a[0][i][0])[:80] if i < len(a[0]) else None,
                    repr(b[0][i][0])[:80] if i < len(b[0]) else None))
    elif a[0] != b[0]:
        res.bad('C17/%s/timing_differs' % tag,
                'same events, different relative times (timer state leaked)')
    if a[1] != b[1]:
        what = 'request' if (a[1] and b[1] and a[1][0] != b[1][0]) else 'frames'
        res.bad('C17/%s/wire_%s_differ' % (tag, what),
                'fresh %r... reused %r...' % (
                    repr(a[1])[:150], repr(b[1])[:150]))
    if a[2] != b[2]:
        res.bad('C17/%s/calls_differ' % tag, '%r vs %r' % (a[2][:4], b[2][:4]))
    # keys of the chain pairwise different
    keys = []
    for s in w.socks:
        wr = oracle.Wire(s)
        if wr.requests:
            for ln in wr.requests[0].split(b'\r\n'):
                if ln.lower().startswith(b'sec-websocket-key:'):
                    keys.append(ln.split(b':', 1)[1].strip())
    if len(set(keys)) != len(keys):
        res.bad('C17/%s/key_reused' % tag, 'keys %r' % keys)
    res.nontrivial = 'ready' in names_chain
    res.sig = '%s|%s|%s|%s' % (kinds, case['compress'], case.get('close_last'),
                               ','.join(n[:3] for n in names_chain))
    res.sample = {'previous_endings': case['prev'], 'compress': case['compress'],
                  'close_last': case.get('close_last'),
                  'last_events': [n for n in names_chain if n != 'poll'][:16]}
    return res
