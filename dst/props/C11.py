"""C11 - concurrent senders never corrupt the wire."""
import copy

from .. import oracle, peer, scen as S
from ..runner import Result
from . import _threads as T

ID = 'C11'
LEVEL = 'exploration'
RULE = ('ThreadSim (see C12): 2-3 sender threads with 1-3 send_text / '
        'send_binary / send_ping / send_pong calls each carrying unique '
        'payloads (sizes crossing 126; 64 KiB in the big family), optionally '
        'the event-loop thread answering server Pings and sending automatic '
        'Pings, with and without compression (context takeover on/off); the '
        'socket write itself is split in two steps.  sweep1: every single '
        'pre-emption point of every base; sweep2: pairs; random: random-walk '
        'and PCT schedulers over seeded programs.  Oracle: the bytes decode '
        'completely into valid client frames, the multiset of messages equals '
        'the accepted calls, per-thread order is kept, and an independent '
        'peer inflating RSV1 frames in wire order recovers every message.  '
        'Non-trivial = >= 2 threads wrote frames; distinct = distinct (base, '
        'switch sites, wire order) signatures')
RULE += (' '
         "Further family `stall`: one sender's sendall blocks half-way for "
         '1-65 s of simulated time (40 % of these through an HTTP proxy; a '
         'socket with a time-out gives up after it with half of the data '
         "written) while the other threads and the event loop's own pings / "
         'pongs want to write.')
SHRINK_LISTS = [('schedule', 'points')]
EXPECTED_PROBES = ['lock_contended', 'split_writes', 'with_compression',
                   'context_takeover', 'auto_pong_raced', 'auto_ping_raced',
                   'interleaved_threads_on_wire', 'big_frame']
REAL = ['all of /repo/lomond; real threading.Thread objects, one running at '
        'a time']
STUBS = ['threading.Lock (SimLock at lomond.session.threading and '
         'lomond.websocket.threading)', 'GIL scheduling (replaced by the '
         'seeded scheduler)', 'kernel socket (split sendall)', 'select.poll',
         'time.time', 'peer']


def _txt(tid, k, n=40):
    return {'op': 'send_text', 'text': T.payload_for(tid, k, n)}


def _bin(tid, k, n=130):
    return {'op': 'send_binary', 'hex': T.payload_for(tid, k, n).encode().hex()}


def _png(tid, k):
    return {'op': 'send_ping', 'hex': T.payload_for(tid, k, 3).encode().hex()}


import hashlib as _hl
_FAR = b''.join(_hl.sha256(b'far%d' % k).digest() for k in range(40))

BASES = [
    {'name': 'text_vs_text', 'threads': [[_txt(1, 0)], [_txt(2, 0)]]},
    {'name': 'two_each', 'threads': [[_txt(1, 0), _bin(1, 1)],
                                     [_bin(2, 0), _txt(2, 1)]]},
    {'name': 'three_threads', 'threads': [[_txt(1, 0)], [_bin(2, 0)],
                                          [_png(3, 0), _txt(3, 1)]]},
    {'name': 'vs_auto_pong', 'threads': [[_txt(1, 0), _txt(1, 1)]],
     'loop': ['ping']},
    {'name': 'vs_auto_ping', 'threads': [[_txt(1, 0), _bin(1, 1)]],
     'ping_rate': 0.5, 'poll': 0.5},
    {'name': 'compressed_takeover', 'threads': [[_txt(1, 0, 60), _txt(1, 1, 60)],
                                                [_txt(2, 0, 60)]],
     'compress': True},
    {'name': 'compressed_no_takeover', 'threads': [[_txt(1, 0, 60)],
                                                   [_bin(2, 0, 60)]],
     'compress': True, 'cnct': True},
    {'name': 'compressed_vs_auto_pong', 'threads': [[_txt(1, 0, 60)],
                                                    [_txt(2, 0, 60)]],
     'compress': True, 'loop': ['ping']},
    {'name': 'big_vs_small', 'threads': [[_bin(1, 0, 65536)], [_txt(2, 0)]]},
    # far beyond any plausible chunking / fragmentation threshold
    {'name': 'huge_vs_small', 'threads': [[_bin(1, 0, 300000)],
                                          [_txt(2, 0), _bin(2, 1)]]},
    {'name': 'huge_text_vs_small_compressed',
     'threads': [[_txt(1, 0, 1200000)], [_txt(2, 0, 60)]], 'compress': True},
    {'name': 'big_compressed_vs_small', 'threads': [[_bin(1, 0, 65540)],
                                                     [_txt(2, 0, 60)]],
     'compress': True},
    {'name': 'snct_inbound_vs_sender', 'threads': [[_txt(1, 0, 60)],
                                                   [_txt(2, 0, 60)]],
     'compress': True, 'snct': True, 'loop': ['ctext', 'ctext']},
    {'name': 'repeated_texts', 'threads': [
        [{'op': 'send_text', 'text': 'alpha alpha'},
         {'op': 'send_text', 'text': 'alpha alpha'}],
        [{'op': 'send_text', 'text': 'beta beta beta'},
         {'op': 'send_text', 'text': 'alpha alpha'}]]},
    # a small negotiated client window and payloads that repeat further
    # apart than it: the peer inflates with exactly that window
    {'name': 'small_window_far_repeats', 'threads': [
        [{'op': 'send_binary', 'hex': (_FAR + b'T1-0-' + _FAR).hex()},
         {'op': 'send_binary', 'hex': (b'T1-1-' + _FAR).hex()}],
        [{'op': 'send_binary', 'hex': (b'T2-0-' + _FAR[::-1] + _FAR).hex()}]],
     'compress': True, 'cbits': 9},
    # an incompressible payload of 2 KiB, then messages repeating parts of
    # it: whatever the compressor has consumed must be on the wire
    {'name': 'incompressible_then_repeat', 'threads': [
        [{'op': 'send_binary', 'hex': _FAR[:1280].hex() + (b'T1-0-').hex()},
         {'op': 'send_binary', 'hex': (b'T1-1-' + _FAR[100:700]).hex()}],
        [{'op': 'send_binary', 'hex': (b'T2-0-' + _FAR[640:1280]).hex()}]],
     'compress': True},
    {'name': 'loop_echo_vs_sender', 'threads': [[_txt(1, 0), _txt(1, 1)]],
     'loop': ['text', 'ping'], 'app_echo': True},
]
SLOT1 = 6000
FSLOT = 1200
_INFO = {}


def _info(b):
    if b not in _INFO:
        _INFO[b] = T.default_steps(BASES[b])
    return _INFO[b]


# race-directed sweep (family `race`): sets of site rules over the points
# where two threads touch the same field of the connection state, of the
# session or of the compression object (see _threads.race_candidates)
_RACE = {}


def _race(b, tier):
    key = (b, tier)
    if key not in _RACE:
        base = BASES[b]
        cands = T.race_candidates(base)
        depth, cap = (2, 1500) if tier == 'quick' else (3, 40000)
        _RACE[key] = (cands, T.race_schedules(base, cands, depth, cap))
    return _RACE[key]


FULL2 = ['vs_auto_ping', 'text_vs_text', 'big_vs_small']      # bases whose two-pre-emption sweep is complete (thorough)


def _full2_size(b):
    n, nt = _info(b)
    return n * (n + 40) * (nt + 1) ** 2


def _full2_bases():
    return [i for i, b in enumerate(BASES) if b['name'] in FULL2]


def _reassemble(frames):
    """Join the fragments of fragmented messages -> (frames, problem).
    problem: a data frame of another message, or a continuation nobody
    opened, in the middle - what a peer fails the connection for."""
    out, cur, problem = [], None, None
    for f in frames:
        if f.opcode >= 8:
            out.append(f)
            continue
        if f.opcode == 0:
            if cur is None:
                problem = problem or ('fragments_stray_continuation', repr(f))
                continue
            cur.payload = bytes(cur.payload) + bytes(f.payload)
            if f.fin:
                cur.fin = 1
                cur.minimal = True
                out.append(cur)
                cur = None
            continue
        if cur is not None:
            problem = problem or ('fragments_interleaved_with_other_message',
                                  'data frame %r while a fragmented message '
                                  'is open' % (f,))
            out.append(f)
            continue
        if f.fin:
            out.append(f)
        else:
            cur = copy.copy(f)
    if cur is not None:
        problem = problem or ('fragments_never_finished', repr(cur))
    return out, problem


def plan(tier):
    q = tier == 'quick'
    if not q:
        return [('sweep1', len(BASES) * SLOT1),
                ('sweep1b', len(BASES) * SLOT1),
                ('sweep2_full', sum(_full2_size(b) for b in _full2_bases())),
                ('base_random', len(BASES) * 6000),
                ('stall', 40000),
                ('freeze', len(BASES) * FSLOT),
                ('cold_start', 2 * 900),
                ('race', sum(len(_race(b, tier)[1])
                             for b in range(len(BASES)))),
                ('sweep2', 60000),
                ('random', 150000),
                ('big', 3000),
                ('windows', 40000), ('refused_then_sent', 40000)]
    return [('sweep1', len(BASES) * SLOT1),
            ('sweep1b', len(BASES) * SLOT1),
            ('base_random', len(BASES) * 250),
            ('stall', 1500),
            ('freeze', len(BASES) * FSLOT),
            ('cold_start', 2 * 900),
            ('race', sum(len(_race(b, tier)[1]) for b in range(len(BASES)))),
            ('sweep2', 3000 if q else 200000),
            ('random', 2500 if q else 150000),
            ('big', 60 if q else 3000),
            ('windows', 1200), ('refused_then_sent', 1500)]


def make_case(family, i, rng, tier):
    if family == 'windows':
        # what the threads' frames are compressed with: every negotiated
        # window / take-over combination, messages with repeats further back
        # than the window, a peer that inflates with exactly what was agreed
        # (scenario and oracle of C06)
        from . import C06, _delegate
        return _delegate.make(C06, 'seeded', rng, tier, 'windows')
    if family == 'refused_then_sent':
        # a send that is refused (wrong type, unencodable text, closing
        # state) between accepted ones: the shared compression context holds
        # nothing of it (scenario and oracle of C03)
        from . import C03, _delegate
        return _delegate.make(C03, 'seeded', rng, tier, 'refused_then_sent')
    if family in ('sweep1', 'sweep1b'):
        b = i // SLOT1
        n, nt = _info(b)
        slot = i % SLOT1
        step, who = slot // (nt + 1), slot % (nt + 1)
        tid = who if who < nt else T.threadsim.CLOCK
        case = copy.deepcopy(BASES[b])
        if family == 'sweep1':
            if step < 1 or step > n:
                return None
            case['schedule'] = {'kind': 'preempt', 'points': [[step, tid]]}
        else:
            # same sweep over the other default order: the sender threads
            # run first (the event loop is held back at the spawn point), so
            # that one pre-emption can hand a half-finished send to an event
            # loop that still has unread traffic
            if step < 2 or step > n + 60:
                return None
            case['schedule'] = {'kind': 'preempt',
                                'points': [[1, 1], [step, tid]]}
        return case
    if family == 'race':
        for b in range(len(BASES)):
            cands, scheds = _race(b, tier)
            if i < len(scheds):
                break
            i -= len(scheds)
        case = copy.deepcopy(BASES[b])
        case['schedule'] = T.race_schedule(cands, scheds[i])
        return case
    if family == 'base_random':
        # seeded random-walk / PCT schedules over the hand-written bases
        # (their interesting windows need two or more pre-emptions)
        case = copy.deepcopy(BASES[i % len(BASES)])
        if rng.random() < 0.6:
            case['schedule'] = {'kind': 'random', 'seed': rng.getrandbits(32),
                                'stay': rng.choice([0.5, 0.7, 0.85, 0.95])}
        else:
            case['schedule'] = {'kind': 'pct', 'seed': rng.getrandbits(32),
                                'd': rng.choice([2, 3, 4]),
                                'horizon': rng.choice([150, 400, 800])}
        return case
    if family == 'cold_start':
        # the first sends of a freshly started process (whatever lomond
        # fills lazily at first use is empty again), from two threads whose
        # masking keys have a byte in common; one pre-emption at every step
        step, other = i // 2 + 1, i % 2
        case = {'name': 'cold_start', 'cold': True,
                'threads': [[_txt(1, 0, 25)], [_txt(2, 0, 25)]],
                'mask_keys': ['5a11c3d4', '0f115a77', '11223344', '5a5a5a5a'],
                'schedule': {'kind': 'preempt',
                             'points': [[1, 1], [step, 2 if other else 0]]}}
        return case
    if family == 'freeze':
        # a sender thread is taken off the CPU for 0.6 / 2.5 simulated
        # seconds at one step of its call (every step is tried): timers of
        # the event loop fire, the peer's traffic is handled, other threads
        # run to completion meanwhile
        b = i // FSLOT
        n, nt = _info(b)
        slot = i % FSLOT
        step, who = slot // max(1, nt - 1) + 2, slot % max(1, nt - 1) + 1
        if step > n or nt < 2:
            return None
        if tier == 'quick' and step % 3:
            return None
        case = copy.deepcopy(BASES[b])
        case['schedule'] = {'kind': 'preempt', 'points': [[1, who]],
                            'freeze': [[step, who,
                                        [600001, 2500001][step % 2]]]}
        case['max_steps'] = 120000
        return case
    if family == 'stall':
        # one sender's sendall blocks half-way (the peer stopped reading) for
        # seconds to a minute of simulated time while the others, and the
        # event loop's own pings / pongs, want to write; directly or through
        # an HTTP proxy
        names = ['text_vs_text', 'two_each', 'three_threads', 'vs_auto_pong',
                 'vs_auto_ping', 'big_vs_small', 'compressed_takeover']
        nm = names[i % len(names)]
        case = copy.deepcopy([b for b in BASES if b['name'] == nm][0])
        case['stall'] = {'tid': rng.randrange(1, len(case['threads']) + 1),
                         'k': 0, 'us': rng.choice([900001, 5500001, 12000001,
                                                   40000001, 65000001])}
        case['eof_after'] = 120000000
        case['max_steps'] = 400000
        case['name'] = nm + '+stall'
        case['via_proxy'] = rng.random() < 0.4
        if rng.random() < 0.5:
            case['schedule'] = {'kind': 'preempt',
                                'points': [[1, case['stall']['tid']]]}
        else:
            case['schedule'] = {'kind': 'random', 'seed': rng.getrandbits(32),
                                'stay': rng.choice([0.7, 0.9, 0.97])}
        return case
    if family == 'sweep2_full':
        for b in _full2_bases():
            size = _full2_size(b)
            if i < size:
                break
            i -= size
        n, nt = _info(b)
        k = nt + 1
        t2 = i % k
        i //= k
        t1 = i % k
        i //= k
        s2 = i % (n + 40) + 1
        s1 = i // (n + 40) + 1
        if s2 <= s1:
            return None
        ids = list(range(nt)) + [T.threadsim.CLOCK]
        case = copy.deepcopy(BASES[b])
        case['schedule'] = {'kind': 'preempt',
                            'points': [[s1, ids[t1]], [s2, ids[t2]]]}
        return case
    if family == 'sweep2':
        b = rng.randrange(len(BASES)) if tier == 'quick' else i % len(BASES)
        n, nt = _info(b)
        s1 = rng.randrange(1, n + 1)
        s2 = rng.randrange(s1 + 1, n + 40)
        ids = list(range(nt)) + [T.threadsim.CLOCK]
        case = copy.deepcopy(BASES[b])
        case['schedule'] = {'kind': 'preempt',
                            'points': [[s1, rng.choice(ids)],
                                       [s2, rng.choice(ids)]]}
        return case
    nthreads = rng.choice([2, 2, 3])
    threads = [[T.send_op(rng, t + 1, k, big=(family == 'big'))
                for k in range(rng.choice([1, 2, 3]))]
               for t in range(nthreads)]
    case = {'name': family, 'threads': threads,
            'loop': rng.choice([[], [], ['ping'], ['ping', 'ping'], ['text'],
                                ['ctext', 'ping'], ['ctext', 'ctext']]),
            'compress': rng.random() < 0.5, 'cnct': rng.random() < 0.4,
            'snct': rng.random() < 0.4,
            'ping_rate': rng.choice([0, 0, 0.5]), 'poll': rng.choice([1, 0.5]),
            'app_echo': rng.random() < 0.3,
            'max_steps': 200000 if family == 'big' else 30000}
    if rng.random() < 0.6:
        case['schedule'] = {'kind': 'random', 'seed': rng.getrandbits(32),
                            'stay': rng.choice([0.5, 0.7, 0.9, 0.98])}
    else:
        case['schedule'] = {'kind': 'pct', 'seed': rng.getrandbits(32),
                            'd': rng.choice([1, 2, 3]),
                            'horizon': rng.choice([100, 300, 600])}
    return case


def execute(case):
    if case.get('via'):
        from . import _delegate
        return _delegate.run(case, 'C11', (
            'peer_cannot_inflate', 'client_message_corrupt', 'cannot_inflate',
            'payload_differs', 'wrong_payload', 'not_one_frame',
            'rewritten_after_partial_write', 'hang', 'escaped'))
    if case.get('cold'):
        from .. import bootstrap
        bootstrap.reset_process_state()
    res = Result()
    sc, tr, sched = T.run(case)
    w = tr.world
    res.stats.update(w.stats)
    for k, v in sched.stats.items():
        res.stats['probe:' + k] += v
    res.sim_us = w.now
    res.digest = T.digest(tr, sched)
    if sched.error is not None:
        raise RuntimeError('ThreadSim harness error: %r' % (sched.error,))
    base = case.get('name', 'random')
    compress = bool(case.get('compress'))
    if compress:
        res.stats['probe:with_compression'] += 1
        if not case.get('cnct'):
            res.stats['probe:context_takeover'] += 1
    if tr.hang:
        res.bad('C11/%s/hang' % base, tr.hang)
    if tr.escaped:
        res.bad('C11/%s/exception_in_event_loop' % base, '%s %s' % tr.escaped)
    st = w.socks[-1]
    wire = oracle.Wire(st, 2 if case.get('via_proxy') else 1)
    sig = T.site_signature(sched)
    # ---- whole frames only
    if wire.incomplete:
        res.bad('C11/%s/torn_frame' % base,
                'bytes after offset %d do not form a whole frame | %s' % (
                    wire.rest, sig))
    # A tree that cuts a large message into fragments breaks C03 ("exactly
    # one frame, FIN set"), not C11, as long as the fragments of one message
    # stay together: fragments are joined first and only what is wrong with
    # the joined sequence is judged here.
    frames, frag_problem = _reassemble(wire.frames)
    if frag_problem:
        res.bad('C11/%s/%s' % (base, frag_problem[0]),
                '%s | %s' % (frag_problem[1], sig))
    if len(frames) != len(wire.frames):
        res.xobs.append('C03/message_written_in_fragments')
        res.stats['probe:fragmented_client_message'] += 1
    bad = []
    for f in frames:
        pr = peer.client_frame_problems(f, compress)
        if pr:
            bad.append(('bad_client_frame:' + '+'.join(pr), repr(f)))
    for k, m in bad:
        res.bad('C11/%s/%s' % (base, k), '%s | %s' % (m, sig))
    if frag_problem:
        bad.append(frag_problem)
    # ---- the peer decodes every message in wire order
    dp = peer.DeflatePeer(15, case.get('cbits') or 15, False,
                          bool(case.get('cnct')))
    decoded = []
    inflate_error = None
    for f in frames:
        p = f.payload
        if f.rsv1:
            try:
                p = dp.decompress(p)
            except Exception as e:
                inflate_error = inflate_error or '%s on %r' % (e, f)
                p = None
        decoded.append((f.opcode, p))
    if inflate_error and not bad and not wire.incomplete:
        res.bad('C11/%s/peer_cannot_inflate_in_wire_order' % base,
                '%s | %s' % (inflate_error, sig))
    # ---- exactly the accepted messages, per-thread order kept
    want = []
    for c in tr.tcalls:
        opcode, ref = T.ref_payload(c.op)
        if c.outcome == 'ok':
            want.append((c.tid, c.k, opcode, ref))
        elif not c.exc_is_wse:
            res.bad('C11/%s/send_raised_%s' % (base, c.exc), c.op['op'])
    if 'ctext' in (case.get('loop') or []) and not compress:
        pass
    lib = [(9, b''), (10, b'srv-ping')]
    got_app = [d for d in decoded if d not in lib and d[0] != 8 and
               d != (1, b'loop-echo')]
    want_multiset = sorted((o, r) for _, _, o, r in want)
    if not wire.incomplete and not bad and not inflate_error:
        if sorted(got_app, key=lambda x: (x[0], x[1] or b'')) != want_multiset:
            res.bad('C11/%s/messages_differ' % base,
                    'accepted calls %r, decoded %r | %s' % (
                        [(o, r[:10]) for o, r in want_multiset][:6],
                        [(o, (r or b'')[:10]) for o, r in got_app][:6], sig))
        else:
            # payloads may repeat (also across threads): each thread's
            # messages, in call order, must be a subsequence of the wire
            for tid in set(t for t, _, _, _ in want):
                mine = [(o, r) for t, k, o, r in sorted(
                    x for x in want if x[0] == tid)]
                it = iter(got_app)
                if not all(any(m == g for g in it) for m in mine):
                    res.bad('C11/%s/thread_order' % base,
                            'messages of thread %d out of call order | %s' % (
                                tid, sig))
    tids = []
    for d in got_app:
        for t, k, o, r in want:
            if (o, r) == d:
                tids.append(t)
                break
    if any(a != b for a, b in zip(tids, tids[1:])) and len(set(tids)) > 1:
        runs = sum(1 for a, b in zip(tids, tids[1:]) if a != b)
        if runs >= 2:
            res.stats['probe:interleaved_threads_on_wire'] += 1
    loop = case.get('loop') or []
    if 'ping' in loop and (10, b'srv-ping') in decoded:
        res.stats['probe:auto_pong_raced'] += 1
    if case.get('ping_rate') and (9, b'') in decoded:
        res.stats['probe:auto_ping_raced'] += 1
    if any(len(f.payload) >= 65536 for f in wire.frames):
        res.stats['probe:big_frame'] += 1
    res.nontrivial = len(set(tids)) >= 2 or (len(set(tids)) >= 1 and (
        (10, b'srv-ping') in decoded or (9, b'') in decoded))
    res.sig = '%s|%s|%s' % (base, sig, tids)
    res.sample = {'base': base, 'threads': [[o['op'] for o in p]
                                            for p in case['threads']],
                  'compress': compress, 'cnct': case.get('cnct'),
                  'loop': loop, 'schedule': case.get('schedule'),
                  'switch_sites': sig, 'wire_thread_order': tids,
                  'wire': [f.summary()['op'] for f in wire.frames]}
    return res


def evidence_extra(tier, agg):
    return {'schedules': {'sweep1': 'every single pre-emption point of every '
                                    'base (complete)',
                          'sweep2_full': 'thorough: every pair of pre-emption '
                                         'points for the bases %s'
                                         % (FULL2,),
                          'sweep2': 'pairs of pre-emption points (sampled)',
                          'random': 'random-walk and PCT schedulers'},
            'exhaustive_at_bound': {b['name']: _info(i)[0] * (_info(i)[1] + 1)
                                    for i, b in enumerate(BASES)}}
