"""Shared scenario construction for the two ThreadSim properties (C11, C12)."""
import hashlib

from .. import threadsim, oracle, peer, scen as S

EXT = b'Sec-WebSocket-Extensions: permessage-deflate'


def payload_for(tid, k, filler):
    return 'T%d-%d-%s' % (tid, k, 'x' * filler)


def send_op(rng, tid, k, allow_ctl=True, big=False):
    filler = rng.choice([0, 10, 119, 120, 121, 130, 300] +
                        ([65530, 65536] if big else []))
    r = rng.random()
    text = payload_for(tid, k, filler)
    if rng.random() < 0.15:
        text = 'same text from everybody'       # repeated across threads
    if r < 0.45:
        op = {'op': 'send_text', 'text': text}
    elif r < 0.8 or not allow_ctl:
        op = {'op': 'send_binary', 'hex': text.encode().hex()}
    elif r < 0.9:
        op = {'op': 'send_ping', 'hex': text.encode()[:100].hex()}
    else:
        op = {'op': 'send_pong', 'hex': text.encode()[:100].hex()}
    if op['op'] in ('send_text', 'send_binary') and rng.random() < 0.2:
        op['compress'] = False
    return op


def build(case):
    """case -> ThreadSim scenario."""
    extra = []
    ws = {'compress': False}
    if case.get('compress'):
        hdr = EXT
        if case.get('cnct'):
            hdr += b'; client_no_context_takeover'
        if case.get('snct'):
            hdr += b'; server_no_context_takeover'
        if case.get('cbits'):
            # (a legal, if unusual, spelling: blanks around '=')
            hdr += b'; client_max_window_bits = %d' % case['cbits']
        extra = [hdr]
        ws = {'compress': True}
    steps = S.handshake_steps(extra)
    # traffic the event loop has to react to during the concurrent phase
    loop = case.get('loop') or []
    blob = b''
    sdp = peer.DeflatePeer(15, 15, bool(case.get('snct')), False)
    for what in loop:
        if what == 'ctext':
            blob += peer.enc_frame(1, sdp.compress(
                b'srv-compressed-text ' * 6), rsv1=1)
        elif what == 'close_empty':
            blob += peer.enc_frame(8, b'')
        if what == 'ping':
            blob += peer.enc_frame(9, b'srv-ping')
        elif what == 'close':
            blob += peer.enc_frame(8, peer.enc_close_payload(1000, 'srv'))
        elif what == 'text':
            blob += peer.enc_frame(1, b'srv-text')
        elif what == 'bad_opcode':
            blob += peer.enc_frame(3, b'reserved')      # -> Close 1002
        elif what == 'bad_utf8':
            blob += peer.enc_frame(1, b'\xff\xfe')      # critical: no Close
    if blob:
        steps.append(S.send(blob, after=case.get('loop_after', 0)))
    steps.append(S.eof(after=case.get('eof_after', 6000000)))
    sc = {'url': 'ws://example.test/', 'ws': ws,
          'connect': {'poll': case.get('poll', 1),
                      'ping_rate': case.get('ping_rate', 0),
                      'auto_pong': True, 'close_timeout': 3},
          'conns': [{'server': steps}],
          'threads': case['threads'],
          'schedule': case.get('schedule') or {'kind': 'preempt', 'points': []},
          'start_at': {'name': 'ready'},
          'max_steps': case.get('max_steps', 30000)}
    if case.get('mask_keys'):
        sc['mask'] = list(case['mask_keys'])
    if case.get('stall'):
        sc['stall'] = case['stall']
    if case.get('via_proxy'):
        ok = b'HTTP/1.1 200 Connection established\r\n\r\n'
        c0 = sc['conns'][0]
        c0['proxy'] = {'steps': [{'op': 'await_request', 'nth': 1},
                                 {'op': 'reply', 'tmpl': ok.hex(), 'cuts': [],
                                  'gaps': [0]}], 'then_server': True}
        for st in c0['server']:
            if st.get('op') == 'await_request':
                st['nth'] = 2
        sc['ws'] = dict(sc['ws'], proxies={'http': 'http://proxy.test:3128'})
    if case.get('app'):
        sc['app'] = list(case['app'])
    if case.get('app_echo'):
        sc['app'] = [{'when': {'name': 'text'},
                      'do': [{'op': 'send_text', 'text': 'loop-echo'}]}]
    return sc


def run(case):
    sc = build(case)
    tr, sched = threadsim.run(sc)
    return sc, tr, sched


def digest(tr, sched):
    h = hashlib.sha256()
    h.update(tr.digest().encode())
    h.update(repr(sorted(sched.switches.items())).encode())
    for c in tr.tcalls:
        h.update(repr((c.tid, c.k, c.outcome, c.exc)).encode())
    return h.hexdigest()


def ref_payload(op):
    k = op['op']
    if k == 'send_text':
        return 1, op['text'].encode('utf-8')
    if k == 'send_binary':
        if 'fill' in op:
            h, n, b = op['fill']
            return 2, bytes.fromhex(h) + bytes([b]) * n
        return 2, bytes.fromhex(op['hex'])
    if k == 'send_ping':
        return 9, bytes.fromhex(op.get('hex', ''))
    if k == 'send_pong':
        return 10, bytes.fromhex(op['hex'])
    if k == 'close':
        return 8, None
    raise ValueError(k)


def default_steps(case):
    """Length of the non-preemptive schedule up to the end of the last
    sender call (the part worth sweeping pre-emption points over)."""
    c = dict(case)
    c['schedule'] = {'kind': 'preempt', 'points': []}
    _, tr, sched = run(c)
    last = max([x.step1 for x in tr.tcalls] or [0])
    return min(last + 12, sched.steps), len(case['threads']) + 1


def site_signature(sched):
    return ';'.join('%d>%d@%s' % (a, b, w if isinstance(w, str) else
                                  '%s:%d' % w)
                    for a, b, w in sched.switch_sites[:12])


# ---------------------------------------------------------------------------
# race-directed sweep: pre-emption points where threads touch the same field

_REC_SCHEDULES = 6


def race_candidates(case, tags=None):
    """Sites worth pre-empting at, found by *running* the base: recording
    runs (default order, each sender first, a few seeded random walks) log
    every read / write of a field of the connection state with the thread and
    the yield point; a field touched by two threads, at least once written,
    makes each of its access points - and the yield point that follows it in
    the same thread - a candidate (tid, where, occurrence).  Nothing here
    names a field or a line of lomond: a tree that keeps its flags elsewhere
    gets its own candidates."""
    nt = len(case['threads']) + 1
    specs = [{'kind': 'preempt', 'points': []}]
    specs += [{'kind': 'preempt', 'points': [[1, t]]} for t in range(1, nt)]
    specs += [{'kind': 'random', 'seed': 1000 + k, 'stay': 0.9}
              for k in range(_REC_SCHEDULES)]
    cands = set()
    for spec in specs:
        c = dict(case)
        c['schedule'] = spec
        sc = build(c)
        sc['record_access'] = True
        tr, sched = threadsim.run(sc)
        visits, acc = sched.visits or [], sched.accesses or []
        occ, cnt, nxt, last = [], {}, {}, {}
        for i, v in enumerate(visits):
            cnt[v] = cnt.get(v, 0) + 1
            occ.append(cnt[v])
            if v[0] in last:
                nxt[last[v[0]]] = i
            last[v[0]] = i
        by_attr = {}
        for vi, tid, name, kind in acc:
            if tags is not None and name.split('.')[0] not in tags:
                continue
            by_attr.setdefault(name, []).append((vi, tid, kind))
        for name, lst in by_attr.items():
            if len({t for _, t, _ in lst}) < 2 or \
                    not any(k == 'w' for _, _, k in lst):
                continue
            for vi, tid, kind in lst:
                # before and after a write; after a read (the window between
                # a test and what is done on its strength)
                for j in ((vi, nxt.get(vi)) if kind == 'w' else
                          (nxt.get(vi),)):
                    if j is None or j < 0:
                        continue
                    t, where = visits[j]
                    cands.add((t, where if isinstance(where, str)
                               else tuple(where), occ[j]))
    return sorted(cands, key=repr)


def race_schedules(case, cands, depth, cap=None, seed=0):
    """Every set of at most `depth` site rules over the candidates x every
    target thread x every initial order; a seeded sample of `cap` of them
    when there are more.  Compact form: (candidate indices, targets, order);
    race_schedule() expands one."""
    import itertools
    import random as _random
    nt = len(case['threads']) + 1
    out = []
    for k in range(1, depth + 1):
        for combo in itertools.combinations(range(len(cands)), k):
            targets = [[t for t in range(nt) if t != cands[c][0]]
                       for c in combo]
            for tos in itertools.product(*targets):
                for o in range(nt):
                    out.append((combo, tos, o))
    if cap is not None and len(out) > cap:
        rng = _random.Random('race-%s-%d' % (case.get('name'), seed))
        small = [s for s in out if len(s[0]) < depth]
        big = [s for s in out if len(s[0]) == depth]
        if len(small) >= cap:
            out = rng.sample(small, cap)
        else:
            out = small + rng.sample(big, cap - len(small))
    return out


def race_schedule(cands, compact):
    combo, tos, o = compact
    rules = []
    for c, to in zip(combo, tos):
        tid, where, occ = cands[c]
        rules.append([tid, list(where) if isinstance(where, tuple) else where,
                      occ, to])
    return {'kind': 'sites', 'rules': rules,
            'points': [[1, o]] if o else []}


class RaceFamily(object):
    """The race-directed sweep over a list of base cases, for any module with
    ThreadSim bases: size(tier) and case(i, tier).  `prep` turns a base into
    the case that is recorded (e.g. adds the application reaction the module
    installs at execution time)."""

    def __init__(self, bases, tags=None, prep=None, quick=(2, 800),
                 thorough=(3, 30000)):
        self.bases, self.tags, self.prep = bases, tags, prep
        self.quick, self.thorough = quick, thorough
        self._cache = {}

    def _get(self, b, tier):
        key = (b, tier)
        if key not in self._cache:
            base = self.bases[b]
            rec = self.prep(base) if self.prep else base
            cands = race_candidates(rec, self.tags)
            depth, cap = self.quick if tier == 'quick' else self.thorough
            self._cache[key] = (cands, race_schedules(base, cands, depth, cap))
        return self._cache[key]

    def size(self, tier):
        return sum(len(self._get(b, tier)[1]) for b in range(len(self.bases)))

    def case(self, i, tier):
        import copy
        for b in range(len(self.bases)):
            cands, scheds = self._get(b, tier)
            if i < len(scheds):
                break
            i -= len(scheds)
        case = copy.deepcopy(self.bases[b])
        case['schedule'] = race_schedule(cands, scheds[i])
        return case
