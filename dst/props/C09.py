"""C09 - transport failures become events, never exceptions or hangs."""
import copy
import random

from .. import netsim, oracle, peer, scen as S, streams as ST
from ..runner import Result

ID = 'C09'
LEVEL = 'fault_enumeration'
RULE = ('systematic single-fault sweep: for each of the base scenarios '
        '(plain / TLS / via proxy; passive, echoing, closing application; '
        'server close; ping traffic; fragmented and compressed traffic; '
        'several resolved addresses; persist-wrapped) a fault-free run '
        'records the operation log, then ONE run per (operation, fault kind): '
        'resolution failure kinds, every subset of refused addresses, TLS '
        'handshake failure, failure of every sendall (EPIPE / ECONNRESET / '
        'arbitrary exception / after a partial write), of every recv '
        '(ECONNRESET / arbitrary exception), of every selector wait, EOF and '
        'RST at EVERY byte offset of the server stream, shutdown/close '
        'raising; then seeded multi-fault runs.  Non-trivial = a fault '
        'actually fired; distinct = distinct (base, fault descriptor) pairs')
RULE += (' '
         'Further families: `two_sessions` (ThreadSim, two WebSocket objects '
         'with their own event-loop threads: a send on one is stuck in '
         'sendall for 30-60 s while the transport of the other fails - the '
         'failure must be reported within two poll intervals and the socket '
         'closed) and `persist_marathon` (more than a thousand consecutive '
         'failures through persist(): nothing may escape).')
SHRINK_LISTS = [('faults',)]
EXPECTED_PROBES = ['fault_before_connected', 'fault_after_ready',
                   'next_address_tried', 'all_addresses_tried',
                   'app_call_got_wse',
                   'fault_in_proxy_phase', 'fault_on_tls', 'two_sessions',
                   'persist_marathon',
                   'stalled_writes', 'link_down',
                   'read_error_after_connected']


def _echo_app():
    return [{'when': {'name': 'text'}, 'do': [
                {'op': 'send_text', 'text': u'echo'}]},
            {'when': {'name': 'binary'}, 'do': [
                {'op': 'send_binary', 'hex': '01'}]},
            {'when': {'name': 'poll'}, 'do': [{'op': 'send_ping', 'hex': '70'}]},
            {'when': {'name': 'disconnected'}, 'do': [
                {'op': 'send_text', 'text': u'too late'}]}]


def _frames_small():
    e = ST.Encoded()
    ST.emit(e, 1, u'héllo'.encode('utf-8'))
    ST.emit(e, 9, b'pp')
    ST.emit(e, 2, b'\x00\x01\x02' * 10, fin=0)
    ST.emit(e, 9, b'mid')
    ST.emit(e, 0, b'\xff' * 7, fin=1)
    ST.emit(e, 1, b'x' * 130)
    return bytes(e.stream)


def _scn(name, server, app=None, url='ws://example.test/', ws=None,
         connect=None, conn_extra=None, persist=None):
    conn = {'server': server}
    if conn_extra:
        conn.update(conn_extra)
    sc = {'url': url, 'connect': dict({'poll': 2, 'ping_rate': 3,
                                       'close_timeout': 5}, **(connect or {})),
          'conns': [conn], 'app': app or [], '_name': name,
          'max_polls': 3000}
    if ws:
        sc['ws'] = ws
    if persist:
        sc['persist'] = persist
        sc['conns'] = [copy.deepcopy(conn) for _ in range(3)]
    return sc


def bases():
    fr = _frames_small()
    close = peer.enc_frame(8, peer.enc_close_payload(1000, 'bye'))
    hs = S.handshake_steps()
    out = []
    out.append(_scn('plain_passive',
                    hs + [S.send(fr), S.eof(after=3000000)]))
    out.append(_scn('plain_echo', hs + [S.send(fr), S.send(fr, after=2500000),
                                        S.eof(after=1000000)], _echo_app()))
    out.append(_scn('server_closes', hs + [S.send(fr), S.send(close, after=1000),
                                           {'op': 'await_close',
                                            'timeout': 3000000}, S.eof()],
                    _echo_app()))
    out.append(_scn('app_closes', hs + [S.send(fr),
                                        {'op': 'await_close',
                                         'timeout': 9000000},
                                        S.send(close), S.eof(after=1000)],
                    [{'when': {'name': 'text', 'nth': 1}, 'do': [
                        {'op': 'close', 'code': 1000, 'reason': 'done'}]},
                     {'when': {'name': 'closed'}, 'do': [
                         {'op': 'send_text', 'text': u'late'}]}]))
    out.append(_scn('app_closes_no_reply',
                    hs + [S.send(fr), {'op': 'silence'}],
                    [{'when': {'name': 'poll', 'nth': 1}, 'do': [
                        {'op': 'close'}]}]))
    out.append(_scn('pings_and_timeout',
                    hs + [S.send(fr), {'op': 'silence'}], [],
                    connect={'ping_rate': 1, 'ping_timeout': 4},
                    conn_extra={'react': {'pong': {'delay': 1000, 'limit': 3}}}))
    # reply and frames in one read, one byte per read
    out.append(_scn('one_byte_reads',
                    [{'op': 'await_request'},
                     {'op': 'reply', 'tmpl': (S.reply_tmpl() + fr).hex(),
                      'accept': 'ok'}, S.eof(after=2500000)], _echo_app(),
                    conn_extra={'short_reads': {'*': 1}}))
    out.append(_scn('tls_passive', hs + [S.send(fr), S.send(fr, after=100),
                                         S.eof(after=3000000)], _echo_app(),
                    url='wss://secure.test/x'))
    out.append(_scn('three_addresses', hs + [S.send(fr), S.eof(after=1000)],
                    conn_extra={'addrs': [{'family': 'inet6'}, {}, {}]}))
    # compressed traffic
    dp = peer.DeflatePeer()
    e = ST.Encoded()
    for k in range(3):
        c = dp.compress(b'compressible ' * 20 + bytes([k]))
        ST.emit(e, 2, c[:10], fin=0, rsv1=1)
        ST.emit(e, 0, c[10:], fin=1)
    out.append(_scn('compressed',
                    S.handshake_steps([b'Sec-WebSocket-Extensions: '
                                       b'permessage-deflate']) +
                    [S.send(bytes(e.stream)), S.eof(after=2500000)],
                    _echo_app(), ws={'compress': True}))
    # through a proxy (ws and wss)
    prox = {'steps': [{'op': 'await_request', 'nth': 1},
                      S.send(b'HTTP/1.1 200 Connection established\r\n'
                             b'Proxy-Agent: x\r\n\r\n')]}
    phs = [{'op': 'await_request', 'nth': 2}] + hs[1:]
    out.append(_scn('via_proxy', phs + [S.send(fr), S.eof(after=1000000)],
                    _echo_app(), ws={'proxies': {'http': 'http://proxy.test:3128'}},
                    conn_extra={'proxy': prox}))
    out.append(_scn('via_proxy_tls', phs + [S.send(fr), S.eof(after=1000000)],
                    _echo_app(), url='wss://secure.test/',
                    ws={'proxies': {'https': 'http://u:p@proxy.test'}},
                    conn_extra={'proxy': prox}))
    out.append(_scn('rejected', S.handshake_steps(accept='other_key') +
                    [S.send(fr), S.eof(after=1000)]))
    out.append(_scn('protocol_error', hs + [S.send(fr[:20]),
                                            S.send(peer.enc_frame(5, b'x')),
                                            S.send(fr), S.eof(after=1000)]))
    out.append(_scn('persist', hs + [S.send(fr), S.eof(after=1000000)],
                    _echo_app(), persist={'poll': 2, 'ping_rate': 3,
                                          'min_wait': 1, 'max_wait': 4,
                                          'stop_at': 1, 'tee': False}))
    out.append(_scn('big_message', hs + [
        S.send(peer.enc_frame(2, b'B' * 70000)), S.eof(after=1000000)],
        _echo_app()))
    # the application closes, the server echoes the Close and then keeps the
    # TCP connection for seconds (it is the server's to close, RFC 6455
    # 7.1.1): whatever the client does while it waits, at a short poll
    # interval
    out.append(_scn('app_closes_server_lingers',
                    hs + [S.send(fr), {'op': 'await_close',
                                       'timeout': 9000000},
                          S.send(close), S.eof(after=7000000)],
                    [{'when': {'name': 'text', 'nth': 1}, 'do': [
                        {'op': 'close', 'code': 1000, 'reason': 'done'}]}],
                    connect={'poll': 0.3, 'ping_rate': 0}))
    return out


_BASES = None
_INFO = {}


def _bases():
    global _BASES
    if _BASES is None:
        _BASES = bases()
    return _BASES


def _fault_list(b):
    """All single faults for base b, from its fault-free operation log."""
    if b in _INFO:
        return _INFO[b]
    sc = copy.deepcopy(_bases()[b])
    tr = netsim.run(sc)
    w = tr.world
    nsend = max(s.n_sendall for s in w.socks)
    nrecv = max(s.n_recv for s in w.socks)
    npoll = max(c.n_poll for c in w.conn_specs)
    nbytes = max(s.avail_total for s in w.socks)
    naddr = len(sc['conns'][0].get('addrs') or [{}])
    faults = []
    for r in ('gaierror', 'empty', 'exc'):
        faults.append({'resolve': r})
    if naddr > 1:
        for mask in range(1, 1 << naddr):
            faults.append({'refuse_mask': mask})
        faults.append({'refuse_mask': (1 << naddr) - 1, 'how': 'timeout'})
        faults.append({'socket_fail_mask': 1})
        faults.append({'socket_fail_mask': (1 << naddr) - 1})
    else:
        faults.append({'refuse_mask': 1})
        faults.append({'refuse_mask': 1, 'how': 'timeout'})
        faults.append({'refuse_mask': 1, 'how': 'unreach'})
        faults.append({'socket_fail_mask': 1})
    if sc['url'].startswith('wss'):
        faults.append({'tls_fail': 'handshake'})
    for k in range(nsend + 1):
        for kind in ('epipe', 'reset', 'exc', 'timeout'):
            faults.append({'op': 'sendall', 'k': k, 'kind': kind})
        faults.append({'op': 'sendall', 'k': k, 'kind': 'epipe', 'partial': 1})
        faults.append({'op': 'sendall', 'k': k, 'kind': 'reset', 'partial': 3})
    for k in range(nrecv + 1):
        for kind in ('reset', 'exc', 'timeout', 'ssl'):
            faults.append({'op': 'recv', 'k': k, 'kind': kind})
    for k in range(min(npoll + 1, 40)):
        for kind in ('exc', 'oserror'):
            faults.append({'op': 'poll', 'k': k, 'kind': kind})
    for k in sorted({0, 1, 2, 5, npoll // 2}):
        # the descriptor has gone bad under the loop: every wait from the
        # k-th on fails (a single failure could be retried; this cannot)
        if k <= npoll:
            faults.append({'op': 'poll', 'k_from': k, 'kind': 'oserror'})
    lim = min(nbytes, 2500)
    for j in range(0, lim + 1):
        faults.append({'cut_at': j, 'cut_kind': 'eof'})
        faults.append({'cut_at': j, 'cut_kind': 'rst'})
    if sc['conns'][0].get('proxy'):
        # the proxy stops talking in the middle of (or before) its answer
        # and keeps the connection open: the connect time-out ends that
        for j in (0, 1, 9, 17, 30):
            faults.append({'cut_at': j, 'cut_kind': 'silence'})
    faults.append({'op': 'shutdown', 'kind': 'enotconn'})
    faults.append({'op': 'shutdown', 'kind': 'exc'})
    faults.append({'op': 'close', 'kind': 'raise'})
    _INFO[b] = faults
    return faults


SLOTS = 6000


def plan(tier):
    nb = len(bases())
    return [('sweep', nb * SLOTS),
            ('multi', 3000 if tier == 'quick' else 150000),
            ('two_sessions', 400 if tier == 'quick' else 20000),
            ('persist_marathon', 8 if tier == 'quick' else 200),
            ('link_down', 300 if tier == 'quick' else 20000)]


def _two_sessions_case(rng):
    """ThreadSim: two WebSocket objects, each with its own event-loop
    thread.  A send on the first one is stuck in sendall (its peer stopped
    reading) while the transport of the second one fails: the second one must
    still report it promptly and release its socket."""
    return {'two_sessions': True,
            'fail': rng.choice(['eof', 'rst', 'eof', 'ping_timeout']),
            'fail_after': rng.choice([1500001, 3000001, 7000001]),
            'stall_us': rng.choice([30000001, 60000001]),
            'size': rng.choice([300, 70000]),
            'poll2': rng.choice([0.5, 2]),
            # fair schedules only (the clock advances when nobody can run):
            # the oracle below is about WHEN the failure is reported, and a
            # random walk may starve a runnable thread for simulated minutes
            'schedule': {'kind': 'preempt', 'points': [[1, 1]] + (
                [[rng.randrange(2, 400), rng.randrange(3)]]
                if rng.random() < 0.6 else [])}}


def _execute_two(case):
    from .. import threadsim
    res = Result()
    fail = case['fail']
    steps2 = S.handshake_steps()
    connect2 = {'poll': case['poll2'], 'ping_rate': 0}
    if fail == 'ping_timeout':
        connect2 = {'poll': case['poll2'], 'ping_rate': 1,
                    'ping_timeout': case['fail_after'] / 1e6}
        steps2.append({'op': 'silence'})
    elif fail == 'ping':
        # (used by C14) the other connection gets a Ping meanwhile
        steps2 += [S.send(peer.enc_frame(9, b'are you there'),
                          after=case['fail_after']),
                   S.eof(after=case['stall_us'] + 30000000)]
    else:
        steps2.append({'op': fail, 'after': case['fail_after']})
    sc = {'url': 'ws://example.test/', 'ws': {'compress': False},
          'connect': {'poll': 1, 'ping_rate': 0, 'close_timeout': 3},
          'conns_by_host': {
              'example.test': [{'server': S.handshake_steps() + [
                  S.eof(after=case['stall_us'] + 20000000)]}],
              'b.test': [{'server': steps2}]},
          'second': {'url': 'ws://b.test/', 'connect': connect2},
          'threads': [[{'op': 'send_binary',
                        'hex': (b'S' * case['size']).hex()}]],
          'stall': {'tid': 1, 'k': 0, 'us': case['stall_us']},
          'schedule': case['schedule'], 'start_at': {'name': 'ready'},
          'max_steps': 60000}
    tr, sched = threadsim.run(sc)
    w = tr.world
    res.stats.update(w.stats)
    for k, v in sched.stats.items():
        res.stats['probe:' + k] += v
    res.sim_us = w.now
    import hashlib
    h = hashlib.sha256(tr.digest().encode())
    h.update(repr([(e.name, e.t) for e in tr.events2]).encode())
    h.update(repr(sorted(sched.switches.items())).encode())
    res.digest = h.hexdigest()
    if sched.error is not None:
        raise RuntimeError('ThreadSim harness error: %r' % (sched.error,))
    names2 = [e.name for e in tr.events2]
    res.stats['probe:two_sessions'] += 1
    if tr.hang:
        res.bad('C09/two_sessions/hang', tr.hang)
    if tr.escaped2:
        res.bad('C09/two_sessions/exception_escaped', '%s %s' % tr.escaped2)
    limit = case['fail_after'] + int(2 * case['poll2'] * 1e6) + 1000000
    disc = [e for e in tr.events2 if e.name == 'disconnected']
    if fail == 'ping':
        pings = [e for e in tr.events2 if e.name == 'ping']
        s2 = w.socks[0]
        wire2 = oracle.Wire(s2)
        pos = 0
        t_of = {}
        for seq, now, data in s2.out:
            t_of[pos] = now
            pos += len(data)
        pongs = [t_of.get(f.start) for f in wire2.frames
                 if f.opcode == peer.OP_PONG]
        if not pings or pings[0].t > limit:
            res.bad('C14/two_sessions/ping_event_late',
                    'Ping arrived at %.1f s, events of that connection %s' % (
                        case['fail_after'] / 1e6,
                        [(e.name, round(e.t / 1e6, 1))
                         for e in tr.events2][-5:]))
        if not pongs or pongs[0] is None or pongs[0] > limit:
            res.bad('C14/two_sessions/pong_late_or_missing',
                    'Ping arrived at %.1f s on the second connection; Pong '
                    'written at %s (the first connection\'s send was '
                    'stalled until %.0f s)' % (
                        case['fail_after'] / 1e6,
                        None if not pongs else '%.1f s' % (pongs[0] / 1e6),
                        case['stall_us'] / 1e6))
        res.nontrivial = sched.stats.get('stalled_writes', 0) > 0
        res.sig = 'two|ping|%s' % case['fail_after']
        res.sample = {'second_events': [(e.name, e.t)
                                        for e in tr.events2][-6:]}
        return res
    if not disc:
        res.bad('C09/two_sessions/no_terminal_event',
                'second connection: %s' % names2[-5:])
    else:
        if disc[-1].t > limit:
            res.bad('C09/two_sessions/failure_reported_late',
                    'the transport of the second connection failed at '
                    '%.1f s; Disconnected came at %.1f s, when the first '
                    'connection\'s stalled send returned (%.0f s)' % (
                        case['fail_after'] / 1e6, disc[-1].t / 1e6,
                        case['stall_us'] / 1e6))
        if disc[-1].snap[1]:
            res.bad('C09/two_sessions/graceful', 'graceful=True')
        if not tr.finished2:
            res.bad('C09/two_sessions/iteration_did_not_stop', '')
    s2 = w.socks[0] if w.socks else None
    if s2 is not None and not s2.closed:
        res.bad('C09/two_sessions/socket_left_open',
                'second connection: %s' % names2[-4:])
    res.nontrivial = sched.stats.get('stalled_writes', 0) > 0 and bool(disc)
    res.sig = 'two|%s|%s|%s' % (fail, case['fail_after'], names2[-3:])
    res.sample = {'case': {k: v for k, v in case.items() if k != 'schedule'},
                  'second_events': [(e.name, e.t) for e in tr.events2][-6:],
                  'first_events': [e.name for e in tr.events][-6:]}
    return res


def _execute_marathon(case):
    """persist(): more than a thousand consecutive transport failures; not
    one of them may leave the iterator as an exception (scenario and run are
    C16's, judged here for exceptions and hangs only)."""
    from . import C16
    c = dict(case)
    c.pop('persist_marathon')
    r = C16.execute(c)
    keep = [(k, m) for k, m in r.violations
            if 'escaped' in k or 'hang' in k or 'exception' in k or
            'ended' in k]
    r.violations = [('C09/persist_marathon/' + k.split('/', 1)[1], m)
                    for k, m in keep]
    r.stats['probe:persist_marathon'] += 1
    return r


def _link_down_case(rng):
    """The local link goes down after Ready: every write fails from then on
    (ENOBUFS, the read side stays as it was), nothing arrives any more and
    nobody closes anything.  With a ping timeout configured the iterator
    must end by itself."""
    p = rng.choice([0.5, 1, 2, 5])
    r = p * rng.choice([0.5, 1, 2, 3])
    return {'link_down': True, 'poll': p, 'ping_rate': r,
            'ping_timeout': r * rng.choice([1.5, 2.5, 4]),
            'kind': rng.choice(['enobufs', 'exc', 'timeout']),
            # how many writes after the request still succeed
            'good_writes': rng.choice([0, 0, 1, 3]),
            'pongs': rng.random() < 0.5,
            'tls': rng.random() < 0.3,
            'app_pings': rng.random() < 0.3}


def _execute_link_down(case):
    res = Result()
    p, r, t = case['poll'], case['ping_rate'], case['ping_timeout']
    conn = {'server': S.handshake_steps() + [
        S.send(peer.enc_frame(1, b'up')), {'op': 'silence'}],
        'faults': [{'op': 'sendall', 'k_from': 1 + case['good_writes'],
                    'kind': case['kind']}]}
    if case.get('pongs'):
        conn['react'] = {'pong': {'delay': 1000}}
    app = []
    if case.get('app_pings'):
        app = [{'when': {'name': 'poll'}, 'do': [{'op': 'send_ping',
                                                  'hex': '61'}]}]
    sc = {'url': ('wss' if case.get('tls') else 'ws') + '://example.test/',
          'connect': {'poll': p, 'ping_rate': r, 'ping_timeout': t},
          'conns': [conn], 'app': app, 'max_polls': 4000,
          'max_time_us': int((t * 40 + 600) * 1e6)}
    tr = netsim.run(sc)
    w = tr.world
    res.stats.update(w.stats)
    res.stats['probe:link_down'] += 1
    res.sim_us = w.now
    res.digest = tr.digest()
    names = tr.names()
    key = 'C09/link_down/' + case['kind']
    if tr.escaped:
        res.bad(key + '/exception_escaped', '%s: %s' % tr.escaped)
    if tr.hang:
        res.bad(key + '/hang', 'every write fails, nothing arrives, '
                'ping_timeout=%s: %s | events %s' % (t, tr.hang, names[-5:]))
    elif not names or names[-1] != 'disconnected':
        res.bad(key + '/no_terminal_event', 'events %s' % names[-5:])
    else:
        d = [e for e in tr.events if e.name == 'disconnected'][-1]
        if d.snap[1]:
            res.bad(key + '/graceful', 'events %s' % names[-5:])
        if d.open_socks:
            res.bad(key + '/socket_open_at_terminal_event', '%d' % d.open_socks)
    for c in tr.calls:
        if c.outcome == 'raised' and not c.exc_is_wse:
            res.bad(key + '/app_call_raised_' + c.exc, c.op)
    res.nontrivial = 'ready' in names and any(
        k.startswith('fault:sendall') for k in w.stats)
    res.sig = repr(sorted(case.items()))
    res.sample = {'case': case, 'events': [n for n in names][:12]}
    return res


def make_case(family, i, rng, tier):
    if family == 'link_down':
        return _link_down_case(rng)
    if family == 'two_sessions':
        return _two_sessions_case(rng)
    if family == 'persist_marathon':
        from . import C16
        c = C16.make_case('marathon', i, rng, tier)
        c['persist_marathon'] = True
        return c
    nb = len(_bases())
    if family == 'sweep':
        b = i // SLOTS
        faults = _fault_list(b)
        slot = i % SLOTS
        if slot >= len(faults):
            return None
        if tier == 'quick' and 'cut_at' in faults[slot] and \
                faults[slot]['cut_at'] > 420 and faults[slot]['cut_at'] % 7:
            return None
        return {'base': b, 'faults': [faults[slot]]}
    b = rng.randrange(nb)
    faults = _fault_list(b)
    k = rng.choice([2, 2, 3, 4])
    return {'base': b, 'faults': [copy.deepcopy(rng.choice(faults))
                                  for _ in range(k)],
            'latency': rng.choice([0, 0, 300000])}


def build(case):
    sc = copy.deepcopy(_bases()[case['base']])
    for conn in sc['conns']:
        conn.setdefault('faults', [])
        naddr = len(conn.get('addrs') or [{}])
        conn.setdefault('addrs', [{} for _ in range(naddr)])
        for f in case['faults']:
            if 'resolve' in f:
                conn['resolve'] = f['resolve']
            elif 'refuse_mask' in f:
                for a in range(naddr):
                    if f['refuse_mask'] >> a & 1:
                        conn['addrs'][a] = dict(conn['addrs'][a],
                                                connect=f.get('how', 'refused'))
            elif 'socket_fail_mask' in f:
                for a in range(naddr):
                    if f['socket_fail_mask'] >> a & 1:
                        conn['addrs'][a] = dict(conn['addrs'][a],
                                                socket_fail=True)
            elif 'tls_fail' in f:
                conn['tls_fail'] = f['tls_fail']
            elif 'cut_at' in f:
                conn['cut_at'] = f['cut_at']
                conn['cut_kind'] = f['cut_kind']
            else:
                conn['faults'].append(dict(f))
        if sc.get('persist'):
            break       # faults hit the first attempt only
    if case.get('latency'):
        sc['wake_latency'] = {'*': case['latency']}
    sc['observe_release'] = True
    return sc


def execute(case):
    if case.get('link_down'):
        return _execute_link_down(case)
    if case.get('two_sessions'):
        return _execute_two(case)
    if case.get('persist_marathon'):
        return _execute_marathon(case)
    res = Result()
    sc = build(case)
    tr = netsim.run(sc)
    w = tr.world
    res.stats.update(w.stats)
    res.sim_us = w.now
    res.digest = tr.digest()
    names = [e.name for e in tr.events]
    base = sc['_name']
    f0 = case['faults'][0]
    ftag = f0.get('op') or ('cut_' + f0['cut_kind'] if 'cut_at' in f0 else
                            next(iter(f0)))
    key = 'C09/%s/%s' % (base, ftag)
    fired = [k for k in w.stats if k.startswith('fault:')
             and k not in ('fault:server_eof', 'fault:shutdown_enotconn')]
    # ---- never an exception, never a hang, well-formed sequence
    if tr.escaped:
        res.bad(key + '/exception_escaped', '%s: %s | events %s' % (
            tr.escaped[0], tr.escaped[1], names[-5:]))
    if tr.hang:
        res.bad(key + '/hang', '%s | events %s' % (tr.hang, names[-5:]))
    for k, m in oracle.trace_sanity(tr):
        if k not in ('hang', 'escaped'):
            res.bad(key + '/sequence:' + k, m)
    attempts = oracle.split_attempts(tr.events)
    first = attempts[0] if attempts else []
    fnames = [e.name for e in first]
    # ---- fault before the connection was up -> ConnectFail
    pre = any(k in f0 for k in ('resolve', 'tls_fail')) or \
        ('refuse_mask' in f0 and f0['refuse_mask'] == (1 << len(
            sc['conns'][0]['addrs'])) - 1) or \
        ('socket_fail_mask' in f0 and f0['socket_fail_mask'] == (1 << len(
            sc['conns'][0]['addrs'])) - 1) or \
        (f0.get('op') == 'sendall' and f0.get('k') == 0 and
         not sc['conns'][0].get('proxy'))
    if pre and len(case['faults']) == 1:
        res.stats['probe:fault_before_connected'] += 1
        if not fnames or fnames[-1] != 'connect_fail' or 'connected' in fnames:
            res.bad(key + '/no_connect_fail',
                    'fault before the connection was up, events %s' % fnames)
    if 'refuse_mask' in f0 and len(case['faults']) == 1:
        naddr = len(sc['conns'][0]['addrs'])
        conn_ops = [o for o in w.ops if o[2] == 'connect']
        first_conn = [o for o in conn_ops
                      if o[3] in w.conn_specs[0].used_sockets]
        if f0['refuse_mask'] == (1 << naddr) - 1:
            if len(first_conn) != naddr:
                res.bad(key + '/not_all_addresses_tried',
                        '%d of %d addresses tried before giving up' % (
                            len(first_conn), naddr))
            else:
                res.stats['probe:all_addresses_tried'] += 1
        elif naddr > 1:
            if 'connected' not in fnames:
                res.bad(key + '/next_address_not_tried',
                        'mask %d: an address accepts, events %s' % (
                            f0['refuse_mask'], fnames))
            else:
                res.stats['probe:next_address_tried'] += 1
    if 'socket_fail_mask' in f0 and len(case['faults']) == 1:
        naddr = len(sc['conns'][0]['addrs'])
        if f0['socket_fail_mask'] != (1 << naddr) - 1 and naddr > 1:
            # socket() failed for one address (no such address family on
            # this host): the next address is tried
            if 'connected' not in fnames:
                res.bad(key + '/next_address_not_tried_after_socket_error',
                        'mask %d: an address accepts, events %s' % (
                            f0['socket_fail_mask'], fnames))
            else:
                res.stats['probe:next_address_tried'] += 1
    rm = w.recv_fault_marks
    if len(case['faults']) == 1 and f0.get('op') == 'recv' and rm and \
            'connected' in fnames:
        # a read that failed ends the connection there and then: the error
        # is reported by the terminal event, nothing that was still in the
        # network is delivered as if the stream had stayed intact
        res.stats['probe:read_error_after_connected'] += 1
        later = [e for e in first if e.seq > rm[0][2]]
        ln = [e.name for e in later if e.name != 'poll']
        if not ln or ln[-1] != 'disconnected' or any(
                n in ('text', 'binary', 'ping', 'pong', 'ready', 'closing',
                      'closed') for n in ln):
            res.bad(key + '/read_error_not_terminal',
                    'recv #%d raised (%s); events after it: %s' % (
                        f0['k'], f0['kind'], ln[:8]))
    if 'ready' in fnames and fired:
        res.stats['probe:fault_after_ready'] += 1
    if sc['conns'][0].get('proxy') and 'connected' not in fnames and fired:
        res.stats['probe:fault_in_proxy_phase'] += 1
    if sc['url'].startswith('wss') and fired:
        res.stats['probe:fault_on_tls'] += 1
    # ---- graceful only if a closing handshake had started
    for att in attempts:
        an = [e.name for e in att]
        disc = [e for e in att if e.name == 'disconnected']
        if not disc:
            continue
        socks = [s for s in w.socks if s.conn is w.conn_specs[min(
            att[0].conn if att[0].conn >= 0 else 0, len(w.conn_specs) - 1)]]
        wire_close = False
        for s in socks:
            n_http = 2 if s.conn.proxy else 1
            wr = oracle.Wire(s, n_http)
            if any(f.opcode == peer.OP_CLOSE for f in wr.frames):
                wire_close = True
        app_close_called = any(c.op == 'close' for c in tr.calls)
        started = wire_close or 'closing' in an or 'closed' in an or \
            app_close_called
        if 'rejected' in an:
            # the client itself ended the attempt; not a transport failure
            res.stats['probe:graceful_flag_after_rejected_not_judged'] += 1
            continue
        if disc[-1].snap[1] and not started:
            res.bad(key + '/graceful_without_close_handshake',
                    'events %s' % an[-6:])
    # ---- the socket is closed by the time the terminal event is yielded
    for e in tr.events:
        if e.name in ('disconnected', 'connect_fail') and e.open_socks:
            res.bad(key + '/socket_open_at_terminal_event',
                    '%d socket(s) still open when %s was yielded' % (
                        e.open_socks, e.name))
            break
    for c in tr.calls:
        evn = tr.events[c.at_event].name
        if evn in ('disconnected', 'connect_fail') and c.op != 'close' and (
                c.outcome == 'ok' or c.wrote):
            res.bad(key + '/send_accepted_at_terminal_event',
                    '%s at %s returned %s and wrote %d bytes' % (
                        c.op, evn, c.outcome, c.wrote))
            break
    # ---- sockets closed (or released)
    gc_only = 0
    for srec in (tr.release or {}).get('socks', []):
        if not srec['closed'] and srec['reachable']:
            res.bad(key + '/socket_left_open',
                    'socket %d still open and reachable after the iterator '
                    'finished; events %s' % (srec['sock'], names[-4:]))
        elif srec['by_gc'] or not srec['closed']:
            gc_only += 1
            res.bad(key + '/socket_not_closed_by_library',
                    'socket %d was dropped without close(); events %s' % (
                        srec['sock'], names[-4:]))
    relinfo = tr.release or {}
    if relinfo.get('selectors_created', 0) != relinfo.get('selectors_closed', 0):
        res.bad(key + '/selector_not_closed', '%d created, %d closed' % (
            relinfo.get('selectors_created'), relinfo.get('selectors_closed')))
    # ---- application calls only ever see WebSocketError
    for c in tr.calls:
        if c.outcome == 'raised':
            if c.exc_is_wse:
                res.stats['probe:app_call_got_wse'] += 1
            else:
                res.bad(key + '/app_call_raised_' + c.exc,
                        '%s at event %d raised %s' % (c.op, c.at_event, c.exc))
    res.nontrivial = bool(fired)
    res.sig = '%s|%r' % (base, case['faults'])
    res.sample = {'base': base, 'faults': case['faults'],
                  'events': [n for n in names if n != 'poll'][:16],
                  'fired': fired}
    return res


def evidence_extra(tier, agg):
    per = {}
    for b, sc in enumerate(_bases()):
        per[sc['_name']] = len(_fault_list(b))
    return {'exhaustive': tier == 'thorough',
            'sweep_sizes': per,
            'sweep_note': 'thorough: every (operation, fault kind) and every '
                          'byte offset of every base scenario; quick: byte '
                          'offsets above 420 are sampled every 7th'}
