"""C03 - every frame the client writes is a valid client frame that
round-trips."""
import json
import random
import struct
import zlib

from .. import netsim, oracle, peer, scen as S, streams as ST
from ..runner import Result

ID = 'C03'
LEVEL = 'exploration'
RULE = ('seeded API workloads: batches of send_text / send_binary / send_json '
        '/ send_ping / send_pong / close calls issued at Connecting, Connected, '
        'Ready, inside Closing, after the application\'s own close() and '
        'after Disconnected; payload lengths always include the boundary set '
        '{0,1,125,126,127,65535,65536,65537}, text from all planes, control '
        'payloads 0..125/126/200, close reasons 0/1/123/124/200 bytes, '
        'adversarial masking keys (00000000, ffffffff, key == payload bytes), '
        'bad-argument calls; with and without negotiated compression.  Every '
        'sendall is decoded by an independent RFC 6455 client-frame decoder. '
        'Non-trivial = >= 1 accepted call wrote a frame; distinct = distinct '
        '(call kinds, length classes, states, mask mode) signatures')
RULE += (' '
         'Also: a write that fails part-way with a transient errno (the call '
         'must not be repeated), the extension header folded with blank / '
         'TAB, and the judged connection being the second one of the object '
         'after one whose server did / did not accept permessage-deflate.')
SHRINK_LISTS = [('batches', 'connecting'), ('batches', 'connected'),
                ('batches', 'ready'), ('batches', 'closing'),
                ('batches', 'after_close'), ('batches', 'disconnected')]
EXPECTED_PROBES = ['len_125', 'len_126', 'len_65535', 'len_65536',
                   'compressed_frame', 'compress_false', 'bad_arg_refused',
                   'refused_after_close', 'sent_in_closing', 'close_long_reason',
                   'adversarial_mask', 'transient_write_error',
                   'after_earlier_connection', 'calls_from_several_threads']

BOUNDARY = [0, 1, 125, 126, 127, 65535, 65536, 65537]
BAD = ['text_bytes', 'binary_str', 'ping_str', 'pong_str', 'ping_long',
       'pong_long', 'json_unserialisable', 'json_both', 'text_none',
       'binary_none', 'text_int', 'binary_bytearray', 'text_lone_surrogate',
       'text_surrogate_in_json']


def plan(tier):
    return [('seeded', 10000 if tier == 'quick' else 150000),
            ('boundary', 64 if tier == 'quick' else 640),
            ('threaded', 600 if tier == 'quick' else 30000)]


def _text_of_len(rng, nbytes):
    """A text whose UTF-8 encoding is exactly nbytes long."""
    out = []
    left = nbytes
    alph = [u'a', u'é', u'€', u'\U0001F600', u'\x00', u'Z', u'ह', u'\U0010FFFF']
    base = u''.join(rng.choice(alph) for _ in range(50))
    bl = len(base.encode('utf-8'))
    if left > 4 * bl:
        k = left // bl - 1
        out.append(base * k)
        left -= k * bl
    while left > 0:
        ch = rng.choice(alph)
        n = len(ch.encode('utf-8'))
        if n <= left:
            out.append(ch)
            left -= n
        else:
            out.append(u'a')
            left -= 1
    return u''.join(out)


def _call(rng, size=None):
    r = rng.random()
    if size is None:
        size = rng.choice(BOUNDARY + [rng.randrange(0, 300),
                                      rng.randrange(0, 70000)])
    comp = rng.choice([True, True, False, None])
    op = None
    if r < 0.3:
        op = {'op': 'send_text', 'text': _text_of_len(rng, size)}
    elif r < 0.55:
        data = S.far_repeat(rng, max(size, rng.choice([700, 3000, 40000]))) \
            if rng.random() < 0.25 else S.rand_bytes(rng, size)
        op = {'op': 'send_binary', 'hex': data.hex()}
    elif r < 0.62:
        obj = rng.choice([{'a': 1, 'b': [1, 2, {'c': None}]}, [1, 2, 3], 'str',
                          5, None, {'ü': 'é€', 'k': 'x' * (size % 500)}])
        kwargs = isinstance(obj, dict) and all(k.isidentifier() for k in obj) \
            and rng.random() < 0.5
        return {'op': 'send_json', 'json': json.dumps(obj), 'kwargs': kwargs}
    elif r < 0.72:
        n = rng.choice([0, 1, 124, 125, rng.randrange(0, 126)])
        return {'op': 'send_ping', 'hex': S.rand_bytes(rng, n).hex()}
    elif r < 0.8:
        n = rng.choice([0, 1, 124, 125, rng.randrange(0, 126)])
        return {'op': 'send_pong', 'hex': S.rand_bytes(rng, n).hex()}
    elif r < 0.92:
        v = rng.choice(BAD)
        o = {'op': 'bad', 'variant': v}
        if v in ('ping_long', 'pong_long'):
            o['n'] = rng.choice([126, 127, 200, 70000])
        return o
    else:
        return {'op': 'send_ping'}
    if comp is not None:
        op['compress'] = comp
    return op


def _close_call(rng):
    code = rng.choice([None, 1000, 1000, 1001, 3000, 4999])
    n = rng.choice([0, 1, 50, 122, 123, 124, 200])
    if rng.random() < 0.5:
        reason = _text_of_len(rng, n)
        op = {'op': 'close', 'code': code, 'reason': reason}
    else:
        op = {'op': 'close', 'code': code,
              'reason_hex': S.rand_text(rng, n).encode('utf-8')[:n].hex()}
        # keep the reason bytes valid UTF-8 (cut at a character boundary)
        b = bytes.fromhex(op['reason_hex'])
        while b and peer.utf8_scan(b)[0] != 'valid':
            b = b[:-1]
        b = b + b'x' * (n - len(b))
        op['reason_hex'] = b.hex()
    if rng.random() < 0.15:
        op = {'op': 'close'}
    return op


def make_case(family, i, rng, tier):
    if family == 'threaded':
        # calls made from two or three threads at once with compression
        # negotiated: every accepted call is one frame the peer can restore
        # (ThreadSim; scenarios and wire oracle are C11's)
        from . import C06
        c = C06._threaded_case(i, rng)
        c['mode'] = 'c03_threaded'
        return c
    negotiated = rng.random() < 0.4
    case = {'negotiated': negotiated,
            'cnct': rng.random() < 0.5,
            'cw': rng.choice([8, 9, 10, 12, 15]),
            'mask': rng.choice(['prng', 'prng', 'zero', 'ones', 'payload'])}
    batches = {}
    if family == 'boundary':
        sizes = BOUNDARY + [124, 128, 65534]
        size = sizes[i % len(sizes)]
        kind = ['send_text', 'send_binary'][(i // len(sizes)) % 2]
        op = {'op': kind}
        if kind == 'send_text':
            op['text'] = _text_of_len(rng, size)
        else:
            op['hex'] = S.rand_bytes(rng, size).hex()
        op['compress'] = bool((i // (2 * len(sizes))) % 2)
        batches['ready'] = [op]
        case['negotiated'] = bool((i // (4 * len(sizes))) % 2)
    else:
        for state, p in (('connecting', 0.1), ('connected', 0.2),
                         ('ready', 1.0), ('closing', 0.5),
                         ('after_close', 0.5), ('disconnected', 0.3)):
            if rng.random() < p:
                batches[state] = [_call(rng) for _ in
                                  range(rng.choice([1, 2, 3, 5]))]
                if state in ('ready', 'closing', 'disconnected') and \
                        rng.random() < 0.2:
                    batches[state].append(_close_call(rng))
    case['batches'] = batches
    if family == 'seeded' and rng.random() < 0.12:
        # a write fails part-way with a "transient" errno
        case['write_fault'] = {'k': rng.randrange(1, 5),
                               'kind': rng.choice(['eintr', 'eagain',
                                                   'enobufs', 'timeout']),
                               'partial': rng.choice([1, 3, 7])}
    if family == 'seeded' and rng.random() < 0.1:
        # the same keyword(s) again and again with values that compare equal
        # but are different JSON values (1, True, 1.0; 0, False, 0.0, -0.0)
        vals = [1, True, 1.0, 0, False, 0.0, -0.0, '1', None]
        rng.shuffle(vals)
        batches.setdefault('ready', [])
        batches['ready'] = list(batches['ready']) + [
            {'op': 'send_json', 'json': json.dumps({'value': v, 'k': 'same'}),
             'kwargs': True} for v in vals[:rng.choice([2, 4, 9])]]
    case['fold'] = rng.choice([None, None, ' ', '\t'])
    if family == 'seeded' and not case.get('write_fault') and \
            rng.random() < 0.12:
        # the same object had an earlier connection whose server did / did
        # not accept permessage-deflate; the judged connection is the second
        case['earlier'] = rng.choice(['negotiated', 'declined'])
    case['server_closes'] = 'closing' in batches or rng.random() < 0.3
    if not case['server_closes']:
        case['app_close'] = _close_call(rng)
    return case


def build(case):
    b = case['batches']
    extra = []
    ws = {'compress': False}
    if case.get('negotiated'):
        sep = '; ' if not case.get('fold') else ';\r\n' + case['fold']
        hdr = 'Sec-WebSocket-Extensions: permessage-deflate' + sep + \
              'client_max_window_bits=%d' % case.get('cw', 15)
        if case.get('cnct'):
            hdr += sep + 'client_no_context_takeover'
        extra = [hdr.encode()]
        ws = {'compress': True}
    enc = ST.Encoded()
    app = []
    for state in ('connecting', 'connected', 'ready', 'disconnected'):
        if b.get(state):
            app.append({'when': {'name': state}, 'do': list(b[state])})
    if case.get('server_closes'):
        if b.get('closing'):
            app.append({'when': {'name': 'closing'}, 'do': list(b['closing'])})
        tail = [S.send(peer.enc_frame(8, peer.enc_close_payload(1000, 'bye')),
                       after=1000000),
                {'op': 'await_close', 'timeout': 5000000}, S.eof()]
    else:
        ops = [case.get('app_close') or {'op': 'close'}]
        ops += list(b.get('after_close') or [])
        app.append({'when': {'name': 'poll', 'nth': 1}, 'do': ops})
        tail = [{'op': 'await_close', 'timeout': 20000000},
                S.send(peer.enc_frame(8, peer.enc_close_payload(1000, 'ok'))),
                S.eof(after=1000)]
    mask = case.get('mask', 'prng')
    sc = ST.stream_scenario({'seg': 'one'}, enc, tail, extra_headers=extra,
                            ws=ws, app=app,
                            connect={'ping_rate': 0, 'poll': 2})
    if case.get('write_fault'):
        sc['conns'][0]['faults'] = [dict(case['write_fault'], op='sendall')]
    if case.get('earlier'):
        sc['ws'] = dict(sc.get('ws') or {}, compress=True)
        first = {'server': S.handshake_steps(
            [b'Sec-WebSocket-Extensions: permessage-deflate']
            if case['earlier'] == 'negotiated' else ()) + [S.eof(after=1003)]}
        sc['conns'] = [first] + sc['conns']
        sc['n_connects'] = 2
        for rule in sc.get('app') or []:
            rule['when'] = dict(rule['when'], attempt=1)
    if mask == 'payload':
        # keys equal to the first payload bytes of the calls, in call order
        keys = []
        for state in ('connecting', 'connected', 'ready', 'closing',
                      'after_close', 'disconnected'):
            for op in b.get(state) or []:
                keys.append(_first4(op))
        sc['mask'] = keys or 'zero'
    else:
        sc['mask'] = mask
    return sc


def _first4(op):
    if op['op'] == 'send_text':
        d = op['text'].encode('utf-8')
    elif 'hex' in op:
        d = bytes.fromhex(op['hex'])
    else:
        d = b''
    return (d[:4] + b'\x00\x00\x00\x00')[:4].hex()


def _reference_payload(op):
    k = op['op']
    if k == 'send_text':
        return 1, op['text'].encode('utf-8')
    if k in ('send_binary', 'send_binary_mutable'):
        return 2, bytes.fromhex(op['hex'])
    if k == 'send_json':
        return 1, json.dumps(json.loads(op['json'])).encode('utf-8')
    if k == 'send_ping':
        return 9, bytes.fromhex(op.get('hex', ''))
    if k == 'send_pong':
        return 10, bytes.fromhex(op['hex'])
    if k == 'close':
        code = op.get('code', 1000) if ('code' in op or 'reason' in op or
                                        'reason_hex' in op) else 1000
        if 'code' not in op:
            code = 1000
        if 'reason' in op:
            reason = op['reason'].encode('utf-8')
        elif 'reason_hex' in op:
            reason = bytes.fromhex(op['reason_hex'])
        else:
            reason = b'goodbye'
        if code is None:
            return 8, b''
        return 8, struct.pack('!H', code) + reason
    raise ValueError(k)


def _canon(o):
    """A JSON value with the type of every scalar made explicit."""
    if isinstance(o, dict):
        return ('obj', tuple(sorted((k, _canon(v)) for k, v in o.items())))
    if isinstance(o, list):
        return ('arr', tuple(_canon(v) for v in o))
    return (type(o).__name__, repr(o))


def execute(case):
    if case.get('mode') == 'c03_threaded':
        from . import C11
        c = dict(case)
        c.pop('mode')
        r = C11.execute(c)
        r.violations = [('C03/threaded/' + k.split('/', 1)[1], m)
                        for k, m in r.violations]
        r.stats['probe:calls_from_several_threads'] += 1
        return r
    res = Result()
    sc = build(case)
    tr = netsim.run(sc)
    res.stats.update(tr.world.stats)
    res.sim_us = tr.world.now
    res.digest = tr.digest()
    if case.get('earlier'):
        res.stats['probe:after_earlier_connection'] += 1
        sep = [e.index for e in tr.events if e.name == '--reconnect--']
        if sep:
            tr.calls = [c for c in tr.calls if c.at_event is not None and
                        c.at_event > sep[-1]]
    names = tr.names()
    negotiated = bool(case.get('negotiated'))
    st = tr.world.socks[-1] if tr.world.socks else None
    inflater = peer.DeflatePeer(15, case.get('cw', 15), False,
                                bool(case.get('cnct')))
    ready_idx = None
    for e in tr.events:
        if e.name == 'ready':
            ready_idx = e.index
    app_closed = False          # a Close by the application is on the wire
    wrote_any = 0
    kinds = []
    if case.get('mask') in ('zero', 'ones', 'payload'):
        res.stats['probe:adversarial_mask'] += 1
    faulted = bool(tr.world.fault_marks)
    if faulted:
        res.stats['probe:transient_write_error'] += 1
    for ci, c in enumerate(tr.calls):
        op = c.spec
        evname = tr.events[c.at_event].name if c.at_event is not None else '?'
        if faulted:
            fseq = tr.world.fault_marks[0][5]
            fm = tr.world.fault_marks[0]
            hit = c.sock == fm[1] and c.k0 <= fm[2] < c.k0 + c.n_sendall
            if c.n_sendall > 1:
                res.bad('C03/%s/rewritten_after_partial_write' % c.op,
                        'the call ended %s after %d sendall calls; one of '
                        'them failed after a partial write' % (
                            c.outcome, c.n_sendall))
                continue
            if hit and c.n_sendall == 1 and c.outcome == 'ok' and \
                    c.op != 'close':     # close() reports nothing by design
                res.bad('C03/%s/failed_write_reported_as_sent' % c.op,
                        'sendall raised but the call returned normally')
                continue
            if c.seq > fseq or (hit and c.n_sendall == 1):
                # the wire is torn from the failed write on
                continue
        data = bytes(st.out_bytes[c.wire_before:c.wire_before + c.wrote]) \
            if st is not None and c.sock == st.index else b''
        tag = op['op'] if op['op'] != 'bad' else 'bad_' + op['variant']
        state = evname
        if app_closed and evname not in ('disconnected',):
            state = 'after_close'
        kinds.append('%s@%s' % (tag[:9], state[:5]))
        if not c.args_intact:
            res.bad('C03/%s/argument_modified' % tag,
                    'caller data changed by the call')
        # ---- bad arguments
        if op['op'] == 'bad':
            if c.outcome != 'raised' or c.wrote:
                res.bad('C03/%s/accepted' % tag,
                        'call with unsendable arguments returned normally or '
                        'wrote %d bytes (state %s)' % (c.wrote, state))
            elif c.exc not in ('TypeError', 'ValueError',
                               'UnicodeEncodeError'):   # a ValueError
                if state in ('ready', 'closing', 'connected'):
                    res.bad('C03/%s/wrong_exception' % tag,
                            '%s in state %s' % (c.exc, state))
            else:
                res.stats['probe:bad_arg_refused'] += 1
            continue
        opcode, ref = _reference_payload(op)
        long_reason = op['op'] == 'close' and len(ref) > 125
        if long_reason:
            res.stats['probe:close_long_reason'] += 1
            if c.wrote:
                res.bad('C03/close/oversize_reason_written',
                        'close() with a %d-byte payload wrote %d bytes '
                        '(outcome %s %s)' % (len(ref), c.wrote, c.outcome, c.exc))
            elif c.outcome == 'ok' and state in ('ready', 'closing') and \
                    not app_closed:
                res.bad('C03/close/oversize_reason_accepted',
                        'close() with a %d-byte payload returned normally' %
                        len(ref))
            continue
        # ---- refused states
        if c.outcome == 'raised':
            if c.wrote:
                res.bad('C03/%s/raised_but_wrote' % tag,
                        '%s raised %s after writing %d bytes' % (
                            tag, c.exc, c.wrote))
            if not c.exc_is_wse:
                res.bad('C03/%s/unexpected_exception' % tag,
                        '%s in state %s' % (c.exc, state))
            elif state in ('ready', 'closing', 'connected'):
                res.bad('C03/%s/refused_while_open' % tag,
                        '%s in state %s' % (c.exc, state))
            else:
                res.stats['probe:refused_after_close'] += 1
            continue
        # ---- returned normally
        if op['op'] == 'close':
            if c.wrote == 0:
                # no-op close (already closing / closed / no socket)
                if state in ('ready', 'closing') and not app_closed and \
                        evname != 'closing':
                    res.bad('C03/close/accepted_but_nothing_written',
                            'state %s' % state)
                if state == 'connecting':
                    app_closed = True
                continue
        if state in ('after_close', 'disconnected', 'connecting') and \
                op['op'] != 'close':
            res.bad('C03/%s/accepted_in_refusing_state' % tag,
                    'state %s, wrote %d' % (state, c.wrote))
            continue
        if c.n_sendall != 1:
            res.bad('C03/%s/not_one_write' % tag,
                    '%d sendall calls for one API call' % c.n_sendall)
        frames, rest = peer.decode_frames(data)
        if len(frames) != 1 or rest != len(data):
            res.bad('C03/%s/not_one_frame' % tag,
                    '%d bytes decode to %d frames, %d trailing bytes' % (
                        len(data), len(frames), len(data) - rest))
            continue
        f = frames[0]
        wrote_any += 1
        n = len(ref)
        for b in (125, 126, 65535, 65536):
            if n == b:
                res.stats['probe:len_%d' % b] += 1
        probs = peer.client_frame_problems(f, negotiated)
        neg_now = negotiated and ready_idx is not None and \
            c.at_event >= ready_idx
        if probs:
            res.bad('C03/%s/invalid_frame:%s' % (tag, '+'.join(probs)),
                    '%r for payload of %d bytes' % (f, n))
            continue
        if f.opcode != opcode:
            res.bad('C03/%s/wrong_opcode' % tag, repr(f))
            continue
        # compression exists only once the reply has been processed
        neg_now = negotiated and ready_idx is not None and \
            c.at_event >= ready_idx
        want_rsv1 = neg_now and opcode in (1, 2) and \
            (op.get('compress', True) or op['op'] == 'send_json')
        if op['op'] == 'send_json':
            payload = f.payload
            if f.rsv1:
                try:
                    payload = inflater.decompress(f.payload)
                except zlib.error as e:
                    res.bad('C03/send_json/cannot_inflate', str(e))
                    continue
            try:
                got_obj = json.loads(payload.decode('utf-8'))
                # JSON values, not Python equality: 1, true and 1.0 (0,
                # false, 0.0 and -0.0) are different things on the wire
                if _canon(got_obj) != _canon(json.loads(op['json'])):
                    raise ValueError('differs')
            except ValueError as e:
                res.bad('C03/send_json/wrong_payload', '%r %s' % (payload[:60], e))
            if f.opcode != 1:
                res.bad('C03/send_json/not_text', repr(f))
            continue
        if bool(f.rsv1) != bool(want_rsv1):
            if want_rsv1:
                res.bad('C03/%s/not_compressed' % tag, repr(f))
            else:
                res.bad('C03/%s/unexpected_rsv1' % tag,
                        'compress=%r negotiated=%r' % (op.get('compress'),
                                                       negotiated))
            continue
        if f.rsv1:
            res.stats['probe:compressed_frame'] += 1
            try:
                payload = inflater.decompress(f.payload)
            except zlib.error as e:
                res.bad('C03/%s/cannot_inflate' % tag, str(e))
                continue
        else:
            payload = f.payload
            if neg_now and opcode in (1, 2):
                res.stats['probe:compress_false'] += 1
        if payload != ref:
            res.bad('C03/%s/payload_differs' % tag,
                    'len %d vs %d; first difference at %s' % (
                        len(payload), len(ref), _first_diff(payload, ref)))
        if evname == 'closing':
            res.stats['probe:sent_in_closing'] += 1
        if op['op'] == 'close':
            app_closed = True
    # every byte on the wire (library frames too) must be valid client frames
    if st is not None and not faulted:
        wire = oracle.Wire(st)
        for k, m in oracle.wire_problems(wire, negotiated):
            res.bad('C03/wire/' + k, m)
    for k, m in oracle.trace_sanity(tr):
        res.xobs.append('C07/' + k)
        if k in ('hang', 'escaped'):
            res.bad('C03/' + k, m)
    res.nontrivial = wrote_any >= 1
    res.sig = '%s|%s|%d' % (','.join(kinds), case.get('mask'), negotiated)
    res.sample = {'negotiated': negotiated, 'mask': case.get('mask'),
                  'calls': [c.summary() for c in tr.calls[:8]],
                  'events': names[:14]}
    return res


def _first_diff(a, b):
    for i in range(min(len(a), len(b))):
        if a[i] != b[i]:
            return i
    return min(len(a), len(b))
