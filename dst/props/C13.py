"""C13 - abandoning the event loop at any event releases the socket."""
import copy

from .. import netsim, oracle, peer, scen as S, streams as ST
from ..runner import Result
from . import C09

ID = 'C13'
LEVEL = 'fault_enumeration'
RULE = ('abandonment sweep: for each base scenario (the 16 of C09: plain / '
        'TLS / proxy, quiet, chatty, server close, client close, close '
        'timeout, ping timeout -> Unresponsive, protocol error, rejection, '
        'compressed, persist) the consumer stops at EVERY event index by each '
        'of the four mechanisms (break, exception in the handler, '
        'generator.close(), exception leaving `with websocket:`), inside a '
        'helper frame like the idiomatic for-loop; afterwards garbage is '
        'collected while the WebSocket object is kept alive.  Seeded family: '
        'random streams, random index, plus a transport fault before the '
        'abandonment.  Oracle: every fake socket is closed or unreachable, no '
        'poll object survives, no descriptor is still registered.  '
        'Non-trivial = abandoned after a socket existed; distinct = distinct '
        '(base, event index, mechanism)')
RULE += (' '
         'Further families: `rebind` (connect() called again before the '
         'abandoned generator is released, every event index), '
         '`sweep_long_url` (the same sweep with a 120-240 byte query '
         'string), `early_faults` (10 things that go wrong before the '
         'connection is up x every event index x 4 mechanisms), ThreadSim '
         'families (abandon while another thread is inside write()).')
SHRINK_LISTS = [('faults',)]
EXPECTED_PROBES = ['abandon_at_connected', 'abandon_at_poll',
                   'abandon_at_message', 'abandon_at_closing',
                   'abandon_at_unresponsive', 'abandon_while_closing',
                   'abandon_in_persist', 'abandon_at_ready',
                   'abandon_while_other_thread_sends',
                   'reconnected_before_release', 'abandon_at_failed_attempt',
                   'long_url', 'descriptor_zero',
                   'with_block_left_generator_kept']

MECH = ['break', 'raise', 'close', 'with']
# 'with_hold': as 'with', but the generator object is kept alive by the
# consumer beyond the with-block (sweep_with_hold family)
SLOTS = 4 * 120
_NEV = {}


def _nevents(b):
    if b not in _NEV:
        tr = netsim.run(copy.deepcopy(C09._bases()[b]))
        _NEV[b] = len(tr.events)
    return _NEV[b]


TSLOT = 2500
TBASES = [
    {'name': 'abandon_at_text_vs_sender', 'loop': ['text'],
     'threads': [[{'op': 'send_binary',
                   'hex': ('T1-0-' + 'x' * 3000).encode().hex()}]],
     'abandon': {'name': 'text', 'nth': 0}},
    {'name': 'abandon_at_poll_vs_two_senders', 'loop': ['ping'],
     'threads': [[{'op': 'send_text', 'text': 'T1-0-' + 'y' * 200}],
                 [{'op': 'send_text', 'text': 'T2-0-' + 'z' * 200}]],
     'abandon': {'name': 'ping', 'nth': 0}},
]
_TINFO = {}


def _tinfo(b):
    from . import _threads as T
    if b not in _TINFO:
        base = dict(TBASES[b])
        _TINFO[b] = T.default_steps(base)
    return _TINFO[b]


_RACE = [None]


def _race():
    from . import _threads as T
    if _RACE[0] is None:
        _RACE[0] = T.RaceFamily(TBASES, prep=lambda b: dict(b, app=[
            {'when': dict(b['abandon']),
             'do': [{'op': 'abandon', 'how': 'break'}]}]))
    return _RACE[0]


def plan(tier):
    nb = len(C09.bases())
    return [('sweep', nb * SLOTS),
            ('sweep_long_url', nb * SLOTS),
            ('sweep_fd0', nb * SLOTS),
            ('sweep_tls_unwrap', nb * SLOTS),
            ('sweep_with_hold', nb * (SLOTS // 4)),
            ('early_faults', nb * len(EARLY) * 6 * 4),
            ('rebind', nb * (SLOTS // 4)),
            ('seeded', 2000 if tier == 'quick' else 100000),
            ('threaded_sweep', len(TBASES) * TSLOT * 2),
            ('threaded_race', _race().size(tier)),
            ('threaded_random', 300 if tier == 'quick' else 30000)]


def _threaded_case(family, i, rng, tier='quick'):
    from . import _threads as T
    if family == 'threaded_race':
        case = _race().case(i, tier)
    elif family == 'threaded_sweep':
        senders_first = i >= len(TBASES) * TSLOT
        i %= len(TBASES) * TSLOT
        b = i // TSLOT
        n, nt = _tinfo(b)
        slot = i % TSLOT
        step, who = slot // (nt + 1), slot % (nt + 1)
        if step < 2 or step > n + 40:
            return None
        tid = who if who < nt else T.threadsim.CLOCK
        case = copy.deepcopy(TBASES[b])
        pts = [[step, tid]]
        if senders_first:
            pts = [[1, 1]] + pts
        case['schedule'] = {'kind': 'preempt', 'points': pts}
    else:
        case = copy.deepcopy(TBASES[rng.randrange(len(TBASES))])
        case['schedule'] = {'kind': 'random', 'seed': rng.getrandbits(32),
                            'stay': rng.choice([0.5, 0.8, 0.95])} \
            if rng.random() < 0.6 else \
            {'kind': 'pct', 'seed': rng.getrandbits(32),
             'd': rng.choice([1, 2, 3]), 'horizon': 500}
    case['threaded'] = True
    case['how'] = ['break', 'close'][i % 2]
    return case


def _execute_threaded(case):
    from . import _threads as T
    res = Result()
    sc = T.build(case)
    sc['app'] = [{'when': dict(case['abandon']),
                  'do': [{'op': 'abandon', 'how': case.get('how', 'break')}]}]
    tr, sched = T.threadsim.run(sc)
    w = tr.world
    res.stats.update(w.stats)
    res.sim_us = w.now
    res.digest = T.digest(tr, sched)
    if sched.error is not None:
        raise RuntimeError('ThreadSim harness error: %r' % (sched.error,))
    if tr.hang:
        res.bad('C13/threaded/hang', tr.hang)
    if tr.escaped:
        res.bad('C13/threaded/escaped', '%s %s' % tr.escaped)
    res.stats['probe:abandon_while_other_thread_sends'] += 1
    if tr.abandoned is not None:
        rel = tr.release or {'socks': []}
        idx, how, evname = tr.abandoned
        for srec in rel['socks']:
            if not srec['closed'] or srec['by_gc']:
                res.bad('C13/threaded/socket_not_closed/%s/%s' % (how, evname),
                        'base %s: the consumer stopped at %s by %s while '
                        'another thread was sending; socket %d was never '
                        'closed by the library | %s' % (
                            case['name'], evname, how, srec['sock'],
                            T.site_signature(sched)))
        if rel.get('selectors_created', 0) != rel.get('selectors_closed', 0):
            res.bad('C13/threaded/selector_not_closed', '%r' % rel)
    for c in tr.tcalls:
        if c.outcome == 'raised' and not c.exc_is_wse:
            res.bad('C13/threaded/send_raised_' + c.exc, c.op['op'])
    res.nontrivial = tr.abandoned is not None
    res.sig = 'thr|%s|%s|%s' % (case['name'], case.get('how'),
                                T.site_signature(sched))
    res.sample = {'base': case['name'], 'how': case.get('how'),
                  'schedule': case.get('schedule'),
                  'abandoned': tr.abandoned, 'release': tr.release}
    return res


# what can go wrong before the connection is up (the events of such an
# attempt are few: every index x every mechanism is enumerated)
EARLY = [{'op': 'sendall', 'k': 0, 'kind': 'reset'},
         {'op': 'sendall', 'k': 0, 'kind': 'epipe'},
         {'op': 'sendall', 'k': 0, 'kind': 'exc'},
         {'op': 'sendall', 'k': 0, 'kind': 'timeout'},
         {'op': 'sendall', 'k': 1, 'kind': 'reset'},
         {'op': 'sendall', 'k': 1, 'kind': 'exc'},
         {'op': 'recv', 'k': 0, 'kind': 'reset'},
         {'op': 'recv', 'k': 0, 'kind': 'exc'},
         {'app': 'close_at_connecting'},
         {'app': 'close_at_connected'}]


def make_case(family, i, rng, tier):
    if family.startswith('threaded'):
        return _threaded_case(family, i, rng, tier)
    if family == 'sweep_long_url':
        c = make_case('sweep', i, rng, tier)
        if c is not None:
            c['long_url'] = 120 + (i % 3) * 60
        return c
    if family == 'sweep_with_hold':
        b = i // (SLOTS // 4)
        idx = i % (SLOTS // 4)
        if idx >= _nevents(b):
            return None
        c = {'base': b, 'index': idx, 'how': 'with_hold', 'faults': []}
        # variants: an earlier with-block on the object that failed before
        # connecting; the loop iterated by a helper thread
        if idx % 3 == 1:
            c['pre_with_failure'] = True
        elif idx % 3 == 2:
            c['iterate_in_thread'] = True
        return c
    if family == 'sweep_tls_unwrap':
        # TLS connections whose peer does not take part in an orderly TLS
        # shutdown: SSLSocket.unwrap(), should the library call it, fails
        # (or gets no answer until the socket's time-out)
        c = make_case('sweep', i, rng, tier)
        if c is not None:
            b = C09.bases()[c['base']]
            proxies = (b.get('ws') or {}).get('proxies') or {}
            if not (b['url'].startswith('wss') or
                    any(str(v).startswith('https') for v in proxies.values())):
                return None
            c['tls_unwrap'] = ['fail', 'stall'][i % 2]
        return c
    if family == 'sweep_fd0':
        # a process without stdin: the first socket gets descriptor 0
        c = make_case('sweep', i, rng, tier)
        if c is not None:
            c['fd0'] = True
        return c
    if family == 'early_faults':
        m = i % 4
        i //= 4
        idx = i % 6
        i //= 6
        f = EARLY[i % len(EARLY)]
        b = i // len(EARLY)
        if C09._bases()[b].get('persist'):
            return None
        return {'base': b, 'index': idx, 'how': MECH[m], 'faults': [],
                'early': f}
    if family == 'sweep':
        b = i // SLOTS
        slot = i % SLOTS
        idx, m = slot // 4, slot % 4
        if idx >= _nevents(b):
            return None
        return {'base': b, 'index': idx, 'how': MECH[m], 'faults': []}
    if family == 'rebind':
        # events = ws.connect(...) again on the same object: the new
        # generator exists before the abandoned one is released
        b = i // (SLOTS // 4)
        idx = i % (SLOTS // 4)
        if idx >= _nevents(b) or C09._bases()[b].get('persist'):
            return None
        return {'base': b, 'index': idx, 'how': 'rebind', 'faults': []}
    b = rng.randrange(len(C09._bases()))
    n = _nevents(b)
    case = {'base': b, 'index': rng.randrange(n), 'how': rng.choice(MECH),
            'faults': []}
    if rng.random() < 0.6:
        fl = C09._fault_list(b)
        case['faults'] = [copy.deepcopy(rng.choice(fl))
                          for _ in range(rng.choice([1, 1, 2]))]
    return case


def build(case):
    faults = list(case.get('faults') or [])
    early = case.get('early')
    if early and 'op' in early:
        faults.append(dict(early))
    sc = C09.build({'base': case['base'], 'faults': faults})
    app = list(sc.get('app') or [])
    if early and 'app' in early:
        app.insert(0, {'when': {'name': early['app'].split('_at_')[1]},
                       'do': [{'op': 'close'}]})
    if case.get('fd0'):
        sc['fd_base'] = 0
    if case.get('tls_unwrap'):
        for cn in sc['conns']:
            cn['tls_unwrap'] = case['tls_unwrap']
    for k in ('pre_with_failure', 'iterate_in_thread'):
        if case.get(k):
            sc[k] = True
    if case.get('long_url'):
        # (a long but legal URL: a token in the query string)
        sc['url'] += ('&' if '?' in sc['url'] else '?') + 'token=' + \
            't' * case['long_url']
    app.insert(0, {'when': {'index': case['index']},
                   'do': [{'op': 'abandon', 'how': case['how']}]})
    sc['app'] = app
    if case['how'] == 'rebind':
        sc['conns'] = [sc['conns'][0], copy.deepcopy(sc['conns'][0])]
        sc['n_connects'] = 2
        sc['observe_release'] = True
    return sc


def execute(case):
    if case.get('threaded'):
        return _execute_threaded(case)
    res = Result()
    sc = build(case)
    tr = netsim.run(sc)
    w = tr.world
    res.stats.update(w.stats)
    res.sim_us = w.now
    res.digest = tr.digest()
    names = [e.name for e in tr.events]
    base = sc['_name']
    if tr.abandoned is None:
        # faults ended the run before the chosen index: nothing to judge
        res.nontrivial = False
        res.sig = 'na'
        return res
    idx, how, evname = tr.abandoned
    if tr.escaped:
        res.bad('C13/escaped/%s/%s' % (how, evname), '%s %s' % tr.escaped)
    if tr.hang:
        res.bad('C13/hang/%s/%s' % (how, evname), tr.hang)
    rel = tr.release or {'socks': [], 'polls_alive': 0}
    wire_close = False
    for s in w.socks:
        wr = oracle.Wire(s, 2 if (s.conn is not None and s.conn.proxy) else 1)
        if any(f.opcode == peer.OP_CLOSE for f in wr.frames):
            wire_close = True
    phase = 'closing' if wire_close else 'open'
    for srec in rel['socks']:
        if not srec['closed'] and srec['reachable']:
            res.bad('C13/leak/%s/%s/%s' % (how, evname, phase),
                    'base %s: socket %d is still open and reachable behind '
                    'the WebSocket after the consumer stopped at event %d '
                    '(%s) by %s' % (base, srec['sock'], idx, evname, how))
        elif srec['by_gc'] or not srec['closed']:
            # the library never called close(): the descriptor was only
            # released because the garbage collector found the object
            res.bad('C13/not_closed_by_library/%s/%s/%s' % (how, evname, phase),
                    'base %s: socket %d was dropped without close() after '
                    'the consumer stopped at event %d (%s) by %s; faults %r'
                    % (base, srec['sock'], idx, evname, how,
                       case.get('faults')))
    if how == 'with_hold':
        # the consumer still holds the generator, whose frame owns the
        # selector object (a poll object, no descriptor): only the socket
        # can be, and must have been, released by WebSocket.__exit__
        res.stats['probe:with_block_left_generator_kept'] += 1
    elif rel.get('selectors_created', 0) != rel.get('selectors_closed', 0):
        res.bad('C13/selector_not_closed/%s/%s' % (how, evname),
                'base %s: %d selector(s) created, %d closed after the '
                'consumer stopped at event %d (%s) by %s' % (
                    base, rel.get('selectors_created'),
                    rel.get('selectors_closed'), idx, evname, how))
    if rel['polls_alive'] and how != 'with_hold':
        res.bad('C13/selector_alive/%s/%s' % (how, evname),
                '%d poll object(s) still reachable' % rel['polls_alive'])
    p = {'connected': 'abandon_at_connected', 'poll': 'abandon_at_poll',
         'closing': 'abandon_at_closing', 'ready': 'abandon_at_ready',
         'unresponsive': 'abandon_at_unresponsive'}.get(evname)
    if evname in ('text', 'binary', 'ping', 'pong'):
        p = 'abandon_at_message'
    if p:
        res.stats['probe:' + p] += 1
    if wire_close:
        res.stats['probe:abandon_while_closing'] += 1
    if sc.get('persist'):
        res.stats['probe:abandon_in_persist'] += 1
    if how == 'rebind':
        res.stats['probe:reconnected_before_release'] += 1
    if case.get('early'):
        res.stats['probe:abandon_at_failed_attempt'] += 1
    if case.get('long_url'):
        res.stats['probe:long_url'] += 1
    if case.get('fd0'):
        res.stats['probe:descriptor_zero'] += 1
    if case.get('tls_unwrap'):
        res.stats['probe:tls_peer_without_orderly_shutdown'] += 1
    res.nontrivial = bool(w.socks)
    res.sig = '%s|%d|%s|%r|%r|%r' % (base, idx, how, case.get('faults'),
                                     case.get('early'),
                                     (case.get('long_url'), case.get('fd0'),
                                      case.get('tls_unwrap')))
    res.sample = {'base': base, 'abandon_at': idx, 'event': evname,
                  'how': how, 'faults': case.get('faults'),
                  'release': rel, 'events': names[-6:]}
    return res


def evidence_extra(tier, agg):
    return {'exhaustive': True,
            'sweep_sizes': {C09._bases()[b]['_name']: _nevents(b) * 4
                            for b in range(len(C09._bases()))},
            'sweep_note': 'every event index x 4 mechanisms of every base '
                          'scenario (complete); seeded family beyond'}
