"""C19 - with a proxy configured, nothing is sent to the target before the
tunnel is up."""
import random

from .. import netsim, oracle, peer, scen as S, streams as ST
from ..runner import Result

ID = 'C19'
LEVEL = 'exploration'
RULE = ('seeded proxies mappings ({}, only http, only https, both, None '
        'values, None = from the environment) x ws/wss targets x proxy URL '
        'shapes (with/without port, http/https scheme, user, user:password) x '
        'proxy replies (200 with various reason phrases and extra headers, '
        'every other status class incl. other 2xx, 1-byte segmentation, '
        'garbage, unterminated then EOF, unterminated and stalled past the '
        '30 s socket time-out, > 16 KiB, immediate EOF) x one fault at each '
        'proxy socket call (connect, sendall of CONNECT, each recv, TLS wrap '
        'after 200).  Oracle on the ordered byte log of the proxy socket and '
        'on the resolved address.  Non-trivial = a proxy was consulted; '
        'distinct = distinct (mapping shape, url shape, reply kind, fault)')
SHRINK_LISTS = [('cuts',), ('faults',)]
EXPECTED_PROBES = ['tunnel_up', 'tunnel_refused_status', 'other_2xx_status',
                   'unterminated_reply', 'reply_stalled_30s', 'oversize_reply',
                   'empty_reply', 'fault_during_tunnel', 'direct_no_entry',
                   'https_proxy', 'wss_through_proxy', 'proxy_from_environ',
                   'one_byte_reply', 'credentials',
                   'threaded_send_during_tunnel',
                   'earlier_connection_through_the_same_proxy']
ASSUMPTIONS = ['of the Proxy-Authorization header only the form is judged (one '
               'line, strict base64 of the credentials as written or '
               'percent-decoded); the doubled colon after its name, pinned by '
               'tests/test_proxy.py, is tolerated']

REPLIES = ['ok', 'ok', 'ok', 'ok', 'status', 'status', 'other_2xx', 'garbage',
           'unterminated_eof', 'stalled', 'oversize', 'empty', 'http10_ok',
           'info_then_200', 'status_token']


def plan(tier):
    return [('seeded', 5000 if tier == 'quick' else 200000),
            ('threaded', 600 if tier == 'quick' else 40000)]


def _threaded_case(rng):
    """ThreadSim: application threads try to send while the event-loop
    thread is still negotiating the tunnel with the proxy."""
    reply = rng.choice(['ok', 'ok', 'status', 'unterminated_eof', 'other_2xx'])
    ops = [{'op': 'send_text', 'text': 'T1-early'},
           {'op': 'send_ping', 'hex': b'T1-ping'.hex()},
           {'op': 'send_binary', 'hex': b'T1-bin'.hex()}]
    prog = [ops[rng.randrange(3)] for _ in range(rng.choice([1, 2, 3]))]
    return {'threaded': True, 'reply': reply, 'status': 407,
            'reason': 'Connection established', 'extra_headers': 1,
            'seg': rng.choice(['one', 'bytes', 'cuts']),
            'cut_seed': rng.getrandbits(32), 'gap': rng.choice([0, 1000]),
            'url': rng.choice(['ws://target.test/chat',
                               'ws://target.test:9001/']),
            'proxy_url': 'http://proxy.test:3128', 'mapping': 'matching',
            'other_url': 'http://wrong-proxy.test:1', 'faults': [],
            'threads': [prog],
            'schedule': {'kind': 'random', 'seed': rng.getrandbits(32),
                         'stay': rng.choice([0.6, 0.9, 0.97])}
            if rng.random() < 0.7 else
            {'kind': 'pct', 'seed': rng.getrandbits(32),
             'd': rng.choice([1, 2, 3]), 'horizon': rng.choice([200, 600])}}


def _execute_threaded(case):
    from .. import threadsim
    res = Result()
    sc, info = build(case)
    sc['threads'] = case['threads']
    sc['schedule'] = case['schedule']
    sc['start_at'] = {'name': 'connecting'}
    sc['max_steps'] = 60000
    sc.pop('observe_release', None)
    tr, sched = threadsim.run(sc)
    w = tr.world
    res.stats.update(w.stats)
    res.sim_us = w.now
    import hashlib
    res.digest = hashlib.sha256((tr.digest() + repr(sorted(
        sched.switches.items()))).encode()).hexdigest()
    if sched.error is not None:
        raise RuntimeError('ThreadSim harness error: %r' % (sched.error,))
    names = tr.names()
    if tr.hang:
        res.bad('C19/threaded/hang', tr.hang)
    if tr.escaped:
        res.bad('C19/threaded/escaped', '%s %s' % tr.escaped)
    st = w.socks[0] if w.socks else None
    res.stats['probe:threaded_send_during_tunnel'] += 1
    if st is not None and st.out:
        first = bytes(st.out[0][2])
        if not first.startswith(b'CONNECT '):
            res.bad('C19/threaded/first_write_not_connect', repr(first[:40]))
        # the socket write is split in two steps by ThreadSim: look at byte
        # offsets, not at write calls
        allout = bytes(st.out_bytes)
        req_end = allout.find(b'\r\n\r\n')
        req_end = len(allout) if req_end < 0 else req_end + 4
        if len(allout) > req_end:
            pos = 0
            seq2 = None
            for sq, _, data in st.out:
                pos += len(data)
                if pos > req_end:
                    seq2 = sq
                    break
            got_before = sum(n for (sq, _, n) in st.delivered if sq < seq2)
            second = allout[req_end:]
            if not info['reply_good']:
                res.bad('C19/threaded/written_on_refused_tunnel',
                        'proxy answered %s, yet %r... was written after '
                        'CONNECT' % (case['reply'], second[:24]))
            elif got_before < info['reply_len']:
                res.bad('C19/threaded/written_before_tunnel_up',
                        '%r... written after %d of %d reply bytes' % (
                            second[:24], got_before, info['reply_len']))
            elif not second.startswith(b'GET '):
                # a frame of another thread between the end of the tunnel
                # set-up and the upgrade request: odd, but the tunnel IS up,
                # so the property is not concerned (counted only)
                res.stats['probe:frame_between_tunnel_and_request'] += 1
    for c in tr.tcalls:
        if c.outcome == 'raised' and not c.exc_is_wse:
            res.bad('C19/threaded/send_raised_' + c.exc, c.op['op'])
    res.nontrivial = st is not None and bool(st.out)
    res.sig = 'thr|%s|%s|%s' % (case['reply'], case['seg'], ';'.join(
        '%d>%d' % (a, b) for a, b, _ in sched.switch_sites[:10]))
    res.sample = {'threaded': True, 'reply': case['reply'],
                  'threads': case['threads'], 'events': names[:8],
                  'writes': [bytes(o[2])[:24].decode('latin-1')
                             for o in (st.out[:3] if st else [])]}
    return res


def make_case(family, i, rng, tier):
    if family == 'threaded':
        return _threaded_case(rng)
    secure = rng.random() < 0.5
    host = rng.choice(['target.test', 'Target.Example.TEST', '10.9.8.7'])
    port = rng.choice([None, None, 80, 443, 8443, 9001])
    # (scheme names are case-insensitive, RFC 3986 3.1)
    url = '%s://%s%s/%s' % (rng.choice(['wss', 'wss', 'wss', 'WSS', 'Wss'])
                            if secure else
                            rng.choice(['ws', 'ws', 'ws', 'WS', 'Ws']), host,
                            ':%d' % port if port else '',
                            rng.choice(['', 'chat', 'a/b?x=1']))
    mapping = rng.choice(['empty', 'http', 'https', 'both', 'both',
                          'none_values', 'environ', 'http_none',
                          'matching', 'matching', 'matching'])
    pscheme = rng.choice(['http', 'http', 'https'])
    phost = rng.choice(['proxy.test', 'PROXY.corp.test', '192.168.0.1'])
    pport = rng.choice([None, 3128, 8080, 80, 443])
    cred = rng.choice([None, None, 'user', 'user:secret', 'u%40x:p',
                       # (long enough for a line-wrapping base64 encoder)
                       'svc-account:' + '0123456789abcdef' * 4,
                       'u' * 57, 'u' * 58, 'tok' * 40 + ':' + 'p' * 77])
    purl = '%s://%s%s%s' % (pscheme, cred + '@' if cred else '', phost,
                            ':%d' % pport if pport else '')
    other = 'http://wrong-proxy.test:1'
    warm = rng.random() < 0.25
    case = {'url': url, 'mapping': mapping, 'proxy_url': purl, 'warm': warm,
            'other_url': other,
            'reply': rng.choice(REPLIES),
            'status': rng.choice([100, 101, 201, 204, 301, 400, 403, 407, 500,
                                  502, 503, 599, rng.randrange(100, 600)]),
            'reason': rng.choice(['Connection established', 'OK', '',
                                  'Tunnel ready']),
            'extra_headers': rng.choice([0, 0, 1, 3]),
            'seg': rng.choice(['one', 'bytes', 'cuts']),
            'cut_seed': rng.getrandbits(32),
            'gap': rng.choice([0, 0, 1000, 400000]),
            'faults': []}
    if case['status'] == 200:
        case['status'] = 404
    if rng.random() < 0.25:
        case['faults'] = [rng.choice([
            {'where': 'connect', 'kind': rng.choice(['refused', 'timeout'])},
            {'where': 'sendall0', 'kind': rng.choice(['epipe', 'reset', 'exc'])},
            {'where': 'recv', 'k': rng.randrange(0, 4),
             'kind': rng.choice(['reset', 'exc', 'timeout'])},
            {'where': 'tls_after_200'},
            {'where': 'resolve'}])]
    return case


def _mapping(case, secure):
    """-> (proxies argument, environ, url of the proxy that must be used)"""
    m = case['mapping']
    p, o = case['proxy_url'], case['other_url']
    key = 'https' if secure else 'http'
    other_key = 'http' if secure else 'https'
    env = {}
    if m == 'empty':
        # the environment names proxies, the explicit empty mapping wins
        env = {'HTTP_PROXY': o, 'HTTPS_PROXY': o}
        return {}, env, None
    if m == 'http':
        d = {'http': p}
    elif m == 'https':
        d = {'https': p}
    elif m == 'both':
        d = {key: p, other_key: o}
    elif m == 'none_values':
        d = {'http': None, 'https': None}
    elif m == 'http_none':
        d = {key: None, other_key: o}
    elif m == 'environ':
        env = {('HTTPS_PROXY' if secure else 'HTTP_PROXY'): p,
               ('HTTP_PROXY' if secure else 'HTTPS_PROXY'): o}
        return None, env, p
    else:
        d = {key: p}
    return d, env, d.get(key)


def _proxy_reply(case):
    rng = random.Random(case.get('cut_seed', 0))
    kind = case['reply']
    hdrs = [b'Proxy-Agent: sim/1.0', b'Via: 1.1 proxy', b'X-Pad: ' + b'z' * 50]
    rng.shuffle(hdrs)
    extra = b''.join(h + b'\r\n' for h in hdrs[:case.get('extra_headers', 0)])
    reason = case.get('reason', 'OK')
    if kind in ('ok', 'http10_ok'):
        ver = b'HTTP/1.0' if kind == 'http10_ok' else b'HTTP/1.1'
        return ver + b' 200' + ((b' ' + reason.encode()) if reason else b'') + \
            b'\r\n' + extra + b'\r\n', True
    if kind == 'status':
        return b'HTTP/1.1 %d Nope\r\n' % case['status'] + extra + \
            b'Content-Length: 0\r\n\r\n', False
    if kind == 'status_token':
        # status-code is exactly three digits: a token that merely starts
        # with 200 (or is cut short) is no 200
        tok = rng.choice([b'2000', b'200OK', b'200-refused', b'200.7', b'20',
                          b'2', b'200x', b'20000', b'200;q=1'])
        return b'HTTP/1.1 ' + tok + b' OK\r\n' + extra + b'\r\n', False
    if kind == 'info_then_200':
        # the first answer is a 1xx block: not a 200, whatever follows it
        return b'HTTP/1.1 %d %s\r\n\r\n' % rng.choice(
            [(100, b'Continue'), (102, b'Processing'),
             (103, b'Early Hints')]) + \
            b'HTTP/1.1 200 Connection established\r\n' + extra + b'\r\n', \
            False
    if kind == 'other_2xx':
        return b'HTTP/1.1 %d Sort of\r\n' % rng.choice([201, 202, 204, 206,
                                                         226, 299]) + \
            extra + b'\r\n', False
    if kind == 'garbage':
        return b'\x16\x03\x01\x02\x00\x01\x00\x01\xfc\x03\x03' + \
            bytes(rng.getrandbits(8) for _ in range(60)) + b'\r\n\r\n', False
    if kind in ('unterminated_eof', 'stalled'):
        return b'HTTP/1.1 200 Connection established\r\n' + extra + \
            b'X-Unfinished: yes\r\n', False
    if kind == 'oversize':
        return b'HTTP/1.1 200 OK\r\nX-Big: ' + b'b' * 17000 + b'\r\n\r\n', False
    if kind == 'empty':
        return b'', False
    raise ValueError(kind)


def _check_connect_block(res, first, must):
    """The CONNECT request is one well-formed header block; credentials of
    the proxy URL travel as one Proxy-Authorization line."""
    import base64
    from six.moves.urllib.parse import urlparse, unquote
    if not first.endswith(b'\r\n\r\n'):
        return
    lines = first[:-4].split(b'\r\n')
    for ln in lines[1:]:
        if b'\n' in ln or b'\r' in ln or b':' not in ln or ln[:1] in b' \t':
            res.bad('C19/proxy/connect_block_malformed',
                    'line %r inside the CONNECT request' % ln[:90])
            return
    pu = urlparse(must)
    # (lomond writes 'Proxy-Authorization:: Basic ...' - a doubled colon that
    # tests/test_proxy.py pins; no property speaks about it, so it is tolerated)
    auth = [ln.split(b':', 1)[1].lstrip(b': ').rstrip() for ln in lines[1:]
            if ln.split(b':', 1)[0].strip().lower() == b'proxy-authorization']
    if pu.username is None:
        if auth:
            res.bad('C19/proxy/credentials_invented', repr(auth))
        return
    if len(auth) != 1 or not auth[0].startswith(b'Basic '):
        res.bad('C19/proxy/credentials_line', repr(auth))
        return
    try:
        raw = base64.b64decode(auth[0][6:], validate=True)
    except Exception:
        res.bad('C19/proxy/credentials_not_base64', repr(auth[0][:90]))
        return
    cred = must.split('://', 1)[1].rsplit('@', 1)[0]
    if raw.decode('utf-8', 'replace') not in (cred, unquote(cred)):
        res.bad('C19/proxy/credentials_wrong', '%r for %r' % (raw, cred))


def build(case):
    from six.moves.urllib.parse import urlparse
    u = urlparse(case['url'])
    secure = u.scheme == 'wss'      # (urlparse lower-cases the scheme)
    proxies, env, must = _mapping(case, secure)
    fr = peer.enc_frame(1, b'through')
    hs_reply = S.handshake_steps()[1]
    conn = {'faults': []}
    info = {'must_proxy': must, 'secure': secure,
            'target': (u.hostname, u.port or (443 if secure else 80))}
    if must:
        pu = urlparse(must)
        info['proxy_addr'] = (pu.hostname,
                              int(pu.port) if pu.port else
                              (443 if pu.scheme == 'https' else 80))
        info['proxy_tls'] = pu.scheme == 'https'
        data, good = _proxy_reply(case)
        info['reply_good'] = good
        info['reply_len'] = len(data)
        rng = random.Random(case.get('cut_seed', 0))
        if case['seg'] == 'bytes':
            cuts = list(range(1, len(data)))
        elif case['seg'] == 'cuts' and len(data) > 2:
            cuts = sorted(set(rng.randrange(1, len(data))
                              for _ in range(rng.randrange(1, 6))))
        else:
            cuts = []
        psteps = [{'op': 'await_request', 'nth': 1}]
        if data:
            psteps.append({'op': 'reply', 'tmpl': data.hex(), 'cuts': cuts,
                           'gaps': [case.get('gap', 0)]})
        kind = case['reply']
        then_server = good
        if kind in ('unterminated_eof', 'empty', 'garbage', 'status',
                    'other_2xx', 'oversize', 'info_then_200', 'status_token'):
            psteps.append(S.eof(after=1000 if kind != 'status' else 2000000))
        elif kind == 'stalled':
            psteps.append({'op': 'silence'})
        conn['proxy'] = {'steps': psteps, 'then_server': then_server}
        conn['server'] = [{'op': 'await_request', 'nth': 2}, hs_reply,
                          S.send(fr), S.eof(after=1000000)]
        for f in case.get('faults') or []:
            w = f['where']
            if w == 'connect':
                conn['addrs'] = [{'connect': f['kind']}]
            elif w == 'sendall0':
                conn['faults'].append({'op': 'sendall', 'k': 0,
                                       'kind': f['kind']})
            elif w == 'recv':
                conn['faults'].append({'op': 'recv', 'k': f['k'],
                                       'kind': f['kind']})
            elif w == 'tls_after_200':
                if secure and not info['proxy_tls']:
                    conn['tls_fail'] = 'wrap'
            elif w == 'resolve':
                conn['resolve'] = 'gaierror'
        info['fault'] = (case.get('faults') or [None])[0]
    else:
        conn['server'] = S.handshake_steps() + [S.send(fr),
                                                S.eof(after=1000000)]
    ws = {}
    if proxies is not None:
        ws['proxies'] = proxies
    sc = {'url': case['url'], 'ws': ws, 'environ': env,
          'connect': {'ping_rate': 0, 'poll': 5}, 'conns': [conn],
          'observe_release': True}
    return sc, info


def execute(case):
    if case.get('threaded'):
        return _execute_threaded(case)
    res = Result()
    sc, info = build(case)
    if case.get('warm'):
        # an earlier connection of the same process: another WebSocket
        # object, same proxy configuration, same target host, another port.
        # Nothing of it may be reused for the connection under test.
        from six.moves.urllib.parse import urlparse
        u = urlparse(case['url'])
        wc = dict(case, url='%s://%s:%d/warm' % (
            'ws' if u.scheme == 'wss' else 'wss', u.hostname,
            8001 + (u.port or 0) % 7), reply='ok', faults=[], warm=False)
        wsc, _ = build(wc)
        netsim.run(wsc)
        res.stats['probe:earlier_connection_through_the_same_proxy'] += 1
    tr = netsim.run(sc)
    w = tr.world
    res.stats.update(w.stats)
    res.sim_us = w.now
    res.digest = tr.digest()
    names = tr.names()
    must = info['must_proxy']
    for k, m in oracle.trace_sanity(tr):
        res.bad('C19/sequence/' + k, m)
    conn = w.conn_specs[0]
    connected = [e for e in tr.events if e.name == 'connected']
    st = w.socks[0] if w.socks else None
    out = bytes(st.out_bytes) if st is not None else b''
    if not must:
        res.stats['probe:direct_no_entry'] += 1
        if (str(conn.host).lower(), conn.port) != (info['target'][0].lower(),
                                                   info['target'][1]):
            res.bad('C19/direct/wrong_address',
                    'no proxy entry for this scheme (mapping %s) but the '
                    'client resolved %s:%s' % (case['mapping'], conn.host,
                                               conn.port))
        if out.startswith(b'CONNECT'):
            res.bad('C19/direct/connect_sent', repr(out[:60]))
        if not connected or connected[0].snap[2] is not None:
            res.bad('C19/direct/connected_event', 'events %s proxy=%r' % (
                names, connected[0].snap[2] if connected else None))
        if 'ready' not in names:
            res.bad('C19/direct/no_ready', 'events %s' % names)
    else:
        if case['mapping'] == 'environ':
            res.stats['probe:proxy_from_environ'] += 1
        if info['proxy_tls']:
            res.stats['probe:https_proxy'] += 1
        if '@' in must:
            res.stats['probe:credentials'] += 1
        fault = info.get('fault')
        if conn.host is not None and (str(conn.host).lower(), conn.port) != (
                info['proxy_addr'][0].lower(), info['proxy_addr'][1]):
            res.bad('C19/proxy/wrong_address',
                    'proxy %s configured but the client resolved %s:%s' % (
                        must, conn.host, conn.port))
        # ---- what was written, in order
        wire = oracle.Wire(st, 2) if st is not None else None
        first = wire.requests[0] if wire and wire.requests else b''
        if st is not None and st.out:
            line = first.split(b'\r\n')[0]
            want = ('CONNECT %s:%d HTTP/1.1' % (
                info['target'][0], info['target'][1])).encode()
            if line.lower() != want.lower():
                res.bad('C19/proxy/connect_line',
                        'first line %r, expected %r' % (line, want))
            _check_connect_block(res, first, must)
            if first != bytes(st.out[0][2]):
                res.bad('C19/proxy/connect_not_one_write',
                        'CONNECT request is not exactly the first write')
        tunnel_ok = info['reply_good'] and not fault
        if fault and fault['where'] == 'recv':
            # a fault on a recv after the reply was complete cannot matter
            tunnel_ok = False if True else tunnel_ok
        if fault and fault['where'] == 'tls_after_200' and not (
                info['secure'] and not info['proxy_tls']):
            tunnel_ok = info['reply_good']
        n_writes = len(st.out) if st is not None else 0
        if n_writes >= 2:
            # anything after CONNECT requires a complete 200 reply first
            seq2 = st.out[1][0]
            got_before = sum(n for (sq, _, n) in st.delivered if sq < seq2)
            if not info['reply_good']:
                res.bad('C19/%s/handshake_written_without_tunnel' %
                        case['reply'],
                        'proxy answered %r..., yet %r... was written after '
                        'the CONNECT request' % (
                            _proxy_reply(case)[0][:40], bytes(st.out[1][2])[:30]))
            elif got_before < info['reply_len']:
                res.bad('C19/ok/handshake_before_reply_complete',
                        'second write after %d of %d reply bytes' % (
                            got_before, info['reply_len']))
        if info['reply_good'] and not fault:
            res.stats['probe:tunnel_up'] += 1
            if info['secure']:
                res.stats['probe:wss_through_proxy'] += 1
            if case['seg'] == 'bytes':
                res.stats['probe:one_byte_reply'] += 1
            if not connected or connected[0].snap[2] != must:
                res.bad('C19/ok/connected_event',
                        'events %s, Connected.proxy=%r, configured %r' % (
                            names, connected[0].snap[2] if connected else None,
                            must))
            if 'ready' not in names or 'text' not in names:
                res.bad('C19/ok/no_traffic_through_tunnel', 'events %s' % names)
            if wire and len(wire.requests) == 2:
                if not wire.requests[1].startswith(b'GET '):
                    res.bad('C19/ok/second_request_not_get',
                            repr(wire.requests[1][:40]))
            if info['secure'] and not info['proxy_tls']:
                wraps = [o for o in w.ops if o[2] == 'wrap']
                if not wraps or (st.out[1][0] if n_writes > 1 else 0) < \
                        wraps[0][0]:
                    res.bad('C19/ok/handshake_before_tls_wrap', 'ops %r' % (
                        [o[2] for o in w.ops][:12],))
                elif str(st.sni).lower() != info['target'][0].lower():
                    res.bad('C19/ok/tls_server_name', '%r' % st.sni)
        elif not info['reply_good']:
            p = {'status': 'tunnel_refused_status', 'other_2xx': 'other_2xx_status',
                 'unterminated_eof': 'unterminated_reply',
                 'stalled': 'reply_stalled_30s', 'oversize': 'oversize_reply',
                 'empty': 'empty_reply'}.get(case['reply'])
            if p and not fault:
                res.stats['probe:' + p] += 1
            if names != ['connecting', 'connect_fail']:
                res.bad('C19/%s/not_connect_fail' % case['reply'],
                        'events %s' % names)
        if fault:
            res.stats['probe:fault_during_tunnel'] += 1
            hit = [k for k in w.stats if k.startswith('fault:') and
                   k != 'fault:server_eof']
            if hit and 'connected' not in names and \
                    names != ['connecting', 'connect_fail']:
                res.bad('C19/fault_%s/not_connect_fail' % fault['where'],
                        'events %s' % names)
            if hit and 'connected' not in names and n_writes >= 2:
                res.bad('C19/fault_%s/handshake_written' % fault['where'],
                        '%d writes' % n_writes)
    for srec in (tr.release or {}).get('socks', []):
        if not srec['closed'] or srec['by_gc']:
            res.bad('C19/socket_not_closed', 'socket %d; events %s' % (
                srec['sock'], names))
    res.nontrivial = bool(must)
    res.sig = '%s|%s|%s|%s|%s|%s' % (
        case['mapping'], case['url'].split(':')[0], case['proxy_url'],
        case['reply'], case['seg'], case.get('faults'))
    res.sample = {'url': case['url'], 'mapping': case['mapping'],
                  'proxy_url': case['proxy_url'], 'reply': case['reply'],
                  'faults': case.get('faults'), 'events': names[:8],
                  'writes': [bytes(o[2])[:30].decode('latin-1')
                             for o in (st.out[:2] if st else [])]}
    return res
