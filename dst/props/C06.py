"""C06 - permessage-deflate is lossless both ways for every negotiated
configuration."""
import random
import zlib

from .. import netsim, oracle, peer, scen as S, streams as ST
from ..runner import Result

ID = 'C06'
LEVEL = 'exploration'
RULE = ('all 8x8x2x2 (server_max_window_bits, client_max_window_bits, '
        'server_no_context_takeover, client_no_context_takeover) combinations '
        'are cycled every 256 runs (also with parameters omitted = 15) with '
        'seeded header spellings; each run plays a history of 2-40 messages '
        'both ways: server messages compressed by an independent zlib peer '
        'holding its own contexts (variants: levels, stored/fixed blocks, '
        'voluntary context resets, BFINAL=1 blocks), fragmented anywhere in '
        'the deflate stream with control frames between fragments, mixed with '
        'uncompressed messages; client messages sent by the application with '
        'compress True/False and inflated by the peer in wire order.  '
        'Negative family: payloads the reference inflater rejects.  Control '
        'families: no offer / server omits the header / parameters out of '
        'range.  Non-trivial = Ready with compression and >= 2 compressed '
        'messages; distinct = distinct (parameters, peer variant, message '
        'layout) signatures')
RULE += (' '
         'Further families: `reconnect`, `pair` (two objects, usually the '
         'same negotiated parameters, interleaved) and `threaded` '
         '(ThreadSim: two or three threads sending compressed messages; '
         "C11's scenarios and wire oracle).")
SHRINK_LISTS = [('items',), ('items', '*', 'inner', '*'), ('sends',),
                ('sends', '*', 'msgs'), ('cuts',), ('schedule', 'points')]
EXPECTED_PROBES = ['takeover_backref_s2c', 'takeover_backref_c2s',
                   'fragmented_compressed', 'ctl_between_compressed_fragments',
                   'uncompressed_mixed', 'client_compress_false',
                   'empty_compressed', 'big_compressed', 'negative_rejected',
                   'rejected_bad_params', 'no_rsv1_without_negotiation',
                   'reconnect_negotiated', 'reconnect_not_negotiated',
                   'two_objects_interleaved', 'threaded_compressed_senders']

MODES = ['normal'] * 12 + ['no_offer', 'server_omits', 'bad_params',
                           'negative', 'negative', 'unsolicited']


def plan(tier):
    return [('seeded', 8192 if tier == 'quick' else 160000),
            ('reconnect', 300 if tier == 'quick' else 12000),
            ('pair', 500 if tier == 'quick' else 20000),
            ('threaded', 1200 if tier == 'quick' else 60000)]


def _msg_payload(rng, history, big_ok):
    r = rng.random()
    if history and r < 0.45:
        # back-reference material: repeat an earlier payload (maybe altered)
        base = rng.choice(history)
        if rng.random() < 0.5 and len(base) > 4:
            k = rng.randrange(len(base))
            base = base[k:] + base[:k]
        return base
    if r < 0.55:
        return b''
    if r < 0.6:
        return bytes([rng.randrange(256)])
    n = rng.choice([5, 40, 300, 2000, 9000] + ([70000] if big_ok else []))
    if rng.random() < 0.2:
        return S.far_repeat(rng, rng.choice([700, 2500, 12000, 70000]))
    kind = rng.randrange(3)
    if kind == 0:
        return S.rand_text(rng, n // 2).encode('utf-8')
    if kind == 1:
        # incompressible
        seed = rng.getrandbits(64)
        r2 = random.Random(seed)
        out = bytearray(r2.getrandbits(8) for _ in range(min(n, 3000)))
        if len(out) >= 40 and rng.random() < 0.5:
            # ... containing the octets of the sync-flush tail: in stored
            # blocks they appear literally in the compressed message
            at = rng.randrange(0, len(out) - 4)
            out[at:at + 4] = b'\x00\x00\xff\xff'
        return bytes(out)
    return (b'the quick brown fox %d ' % rng.randrange(10)) * (n // 20 + 1)


def _reconnect_case(rng):
    """Two or three connections on one WebSocket object; each negotiates
    permessage-deflate or not, independently."""
    n = rng.choice([2, 2, 3])
    conns = [rng.random() < 0.6 for _ in range(n)]
    if all(conns) or not any(conns):
        conns[rng.randrange(n)] = not conns[0]
    return {'mode': 'reconnect', 'negotiated': conns,
            'cnct': rng.random() < 0.4,
            'text': S.rand_text(rng, rng.choice([5, 60, 400])),
            'how': rng.choice(['eof', 'rst', 'close'])}


def _execute_reconnect(case):
    res = Result()
    conns = []
    app = []
    for k, neg in enumerate(case['negotiated']):
        hdr = b'Sec-WebSocket-Extensions: permessage-deflate'
        if case.get('cnct'):
            hdr += b'; client_no_context_takeover'
        steps = S.handshake_steps([hdr] if neg else ())
        steps.append(S.send(peer.enc_frame(1, b'go')))
        if case.get('how') == 'close':
            steps += [S.send(peer.enc_frame(8, peer.enc_close_payload(
                1000, 'x')), after=500000),
                {'op': 'await_close', 'timeout': 2000000}, S.eof()]
        else:
            steps.append({'op': case.get('how', 'eof'), 'after': 1500013})
        conns.append({'server': steps})
        app.append({'when': {'name': 'text', 'attempt': k},
                    'do': [{'op': 'send_text', 'text': case['text']},
                           {'op': 'send_binary',
                            'hex': case['text'].encode('utf-8').hex()},
                           {'op': 'send_text', 'text': case['text']}]})
    sc = {'url': 'ws://example.test/', 'ws': {'compress': True},
          'connect': {'ping_rate': 0, 'poll': 5}, 'conns': conns, 'app': app,
          'n_connects': len(conns)}
    tr = netsim.run(sc)
    res.stats.update(tr.world.stats)
    res.sim_us = tr.world.now
    res.digest = tr.digest()
    ref = case['text'].encode('utf-8')
    for k, neg in enumerate(case['negotiated']):
        if k >= len(tr.world.socks):
            res.bad('C06/reconnect/missing_connection', 'connection %d' % k)
            break
        wire = oracle.Wire(tr.world.socks[k])
        data = [f for f in wire.frames if f.opcode in (1, 2)]
        dp = peer.DeflatePeer(15, 15, False, bool(case.get('cnct')))
        if len(data) != 3:
            res.bad('C06/reconnect/frame_count',
                    'connection %d: %d data frames' % (k, len(data)))
            continue
        for f in data:
            if not neg:
                if f.rsv1:
                    res.bad('C06/reconnect/rsv1_without_negotiation',
                            'connection %d did not negotiate permessage-'
                            'deflate (history %r) but %r has RSV1' % (
                                k, case['negotiated'], f))
                    break
                payload = f.payload
            else:
                if not f.rsv1:
                    res.bad('C06/reconnect/not_compressed',
                            'connection %d negotiated, frame %r' % (k, f))
                    break
                try:
                    payload = dp.decompress(f.payload)
                except zlib.error as e:
                    res.bad('C06/reconnect/peer_cannot_inflate',
                            'connection %d (history %r): %s' % (
                                k, case['negotiated'], e))
                    break
            if payload != ref:
                res.bad('C06/reconnect/client_message_corrupt',
                        'connection %d: %r' % (k, payload[:30]))
                break
        res.stats['probe:reconnect_' + ('negotiated' if neg else
                                        'not_negotiated')] += 1
    names = tr.names()
    res.nontrivial = names.count('ready') >= 2
    res.sig = 'reconnect|%s|%s|%d' % (case['negotiated'], case.get('how'),
                                      len(ref))
    res.sample = {'mode': 'reconnect', 'negotiated': case['negotiated'],
                  'events': names[:16]}
    return res


def _threaded_case(i, rng):
    """Two or three threads sending compressed messages on one connection
    (ThreadSim; the scenarios and the wire oracle are C11's): the peer's one
    inflate context must restore every message in wire order."""
    import copy
    from . import C11
    from . import _threads as T
    bases = [k for k, b in enumerate(C11.BASES) if b.get('compress')]
    b = bases[i % len(bases)]
    case = copy.deepcopy(C11.BASES[b])
    n, nt = C11._info(b)
    r = rng.random()
    if r < 0.5:
        step = rng.randrange(1, n + 1)
        ids = list(range(nt)) + [T.threadsim.CLOCK]
        pts = [[step, rng.choice(ids)]]
        if rng.random() < 0.5:
            pts = [[1, 1]] + pts
        if rng.random() < 0.4:
            pts.append([rng.randrange(step + 1, n + 40), rng.choice(ids)])
        case['schedule'] = {'kind': 'preempt', 'points': pts}
    elif r < 0.8:
        case['schedule'] = {'kind': 'random', 'seed': rng.getrandbits(32),
                            'stay': rng.choice([0.5, 0.7, 0.85, 0.95])}
    else:
        case['schedule'] = {'kind': 'pct', 'seed': rng.getrandbits(32),
                            'd': rng.choice([2, 3, 4]),
                            'horizon': rng.choice([150, 400, 800])}
    case['mode'] = 'threaded'
    return case


def _execute_threaded(case):
    from . import C11
    c = dict(case)
    c.pop('mode')
    r = C11.execute(c)
    r.violations = [('C06/threaded/' + k.split('/', 1)[1], m)
                    for k, m in r.violations]
    r.stats['probe:threaded_compressed_senders'] += 1
    return r


def make_case(family, i, rng, tier):
    if family == 'reconnect':
        return _reconnect_case(rng)
    if family == 'threaded':
        return _threaded_case(i, rng)
    if family == 'pair':
        j = rng.randrange(256)
        a = make_case('seeded', j, rng, tier)
        # usually the same negotiated parameters on both connections
        b = make_case('seeded', j if rng.random() < 0.7 else
                      rng.randrange(256), rng, tier)
        for c in (a, b):
            c['gaps'] = [rng.choice([0, 0, 1000])]
            if c.get('seg') == 'bytes':
                c['seg'] = 'cuts'
        n = rng.choice([2, 3, 5, 8])
        return {'pair': [a, b],
                'order': [rng.randrange(2) for _ in range(n)] + [0, 1]}
    combo = i % 256
    sw = 8 + (combo & 7)
    cw = 8 + ((combo >> 3) & 7)
    snct = bool((combo >> 6) & 1)
    cnct = bool((combo >> 7) & 1)
    mode = MODES[(i // 256 + i) % len(MODES)] if i >= 256 else 'normal'
    params = {'sw': sw, 'cw': cw, 'snct': snct, 'cnct': cnct,
              'omit15': rng.random() < 0.5}
    case = {'mode': mode, 'params': params,
            'spell': rng.getrandbits(32),
            'peer': {'level': rng.choice([6, 6, 1, 9, 0]),
                     'strategy': rng.choice([0, 0, 0, 4, 2, 3]),
                     'variant': rng.choice(['sync', 'sync', 'sync',
                                            'reset_sometimes', 'bfinal'])}}
    if mode == 'bad_params':
        params['bad'] = rng.choice(['sw7', 'sw16', 'cw7', 'cw16', 'swx', 'cwx',
                                    'sw0', 'cw-9'])
    nmsg = rng.choice([2, 3, 5, 8, 15, 40])
    big_ok = rng.random() < 0.15
    history = []
    items = []
    for k in range(nmsg):
        if rng.random() < 0.15:
            items.append(ST.ctl_item(rng))
            continue
        payload = _msg_payload(rng, history, big_ok)
        kind = rng.choice(['text', 'binary'])
        if kind == 'text':
            try:
                txt = payload.decode('utf-8')
            except UnicodeDecodeError:
                kind = 'binary'
        it = {'kind': kind}
        if kind == 'text':
            it['text'] = txt
        else:
            it['hex'] = payload.hex()
        history.append(payload)
        it['compress'] = rng.random() < 0.8
        it['nfrag'] = rng.choice([1, 1, 2, 3, 5])
        it['fseed'] = rng.getrandbits(32)
        it['reset_before'] = rng.random() < 0.3
        inner = []
        for _ in range(it['nfrag'] - 1):
            inner.append([ST.ctl_item(rng)
                          for _ in range(rng.choice([0, 0, 1]))])
        it['inner'] = inner
        items.append(it)
    case['items'] = items
    if mode == 'negative':
        case['neg'] = {'kind': rng.choice(['reserved_btype', 'bad_stored_len',
                                           'distance_too_far']),
                       'at': rng.randrange(0, len(items) + 1)}
    # client sends, keyed by the ordinal of the (expected) message event
    sends = []
    chist = []
    for _ in range(rng.choice([1, 2, 4, 8])):
        msgs = []
        for _ in range(rng.choice([1, 1, 2, 3])):
            payload = _msg_payload(rng, chist + history, big_ok)
            kind = rng.choice(['text', 'binary'])
            m = {'kind': kind, 'compress': rng.random() < 0.8}
            if kind == 'text':
                try:
                    m['text'] = payload.decode('utf-8')
                except UnicodeDecodeError:
                    m['kind'] = 'binary'
            if m['kind'] == 'binary':
                m['hex'] = payload.hex()
            if rng.random() < 0.3:
                m['default'] = True         # do not pass compress at all
                m['compress'] = True
            chist.append(payload)
            msgs.append(m)
        sends.append({'at': rng.randrange(-1, nmsg), 'msgs': msgs})
    case['sends'] = sends
    case.update(ST.seg_fields(rng))
    case['gaps'] = [rng.choice([0, 0, 1000]) for _ in range(3)]
    return case


def _ext_header(case):
    p = case['params']
    rng = random.Random(case.get('spell', 0))
    sw, cw = p['sw'], p['cw']
    if p.get('omit15'):
        sw = None if sw == 15 else sw
        cw = None if cw == 15 else cw
    bad = p.get('bad')
    hdr = S.deflate_ext_header(sw, cw, p['snct'], p['cnct'], rng)
    if bad:
        rep = {'sw7': ('server_max_window_bits', '7'),
               'sw16': ('server_max_window_bits', '16'),
               'sw0': ('server_max_window_bits', '0'),
               'cw7': ('client_max_window_bits', '7'),
               'cw16': ('client_max_window_bits', '16'),
               'cw-9': ('client_max_window_bits', '-9'),
               'swx': ('server_max_window_bits', 'x'),
               'cwx': ('client_max_window_bits', 'ten')}[bad]
        hdr = ('Sec-WebSocket-Extensions: permessage-deflate; %s=%s' % rep
               ).encode()
    return hdr


def _negative_payload(kind):
    if kind == 'reserved_btype':
        return b'\x06\x00\x00'
    if kind == 'bad_stored_len':
        return b'\x00\x05\x00\x00\x00hello'
    # distance beyond the start of the data
    d = b'0123456789abcdefghij' * 4
    c = zlib.compressobj(9, zlib.DEFLATED, -15, 8, 0, d)
    out = c.compress(d) + c.flush(zlib.Z_SYNC_FLUSH)
    return out[:-4]


def build(case):
    mode = case['mode']
    p = case['params']
    negotiated = mode in ('normal', 'negative', 'unsolicited')
    offer = mode != 'no_offer' and mode != 'unsolicited'
    pp = case['peer']
    dp = peer.DeflatePeer(p['sw'], p['cw'], p['snct'], p['cnct'],
                          level=pp['level'], strategy=pp['strategy'])
    enc = ST.Encoded()
    enc.compressed_msgs = 0
    enc.s2c_payloads = []
    variant = pp['variant']
    neg = case.get('neg')
    bfinal_used = [False]

    ref = {'d': zlib.decompressobj(-p['sw'])}

    def ref_inflate(wire):
        # the reference inflater sees the same compressed history as the
        # client (own zlib object, restarted after a BFINAL=1 stream)
        if p['snct']:
            ref['d'] = zlib.decompressobj(-p['sw'])
        out = b''
        data = wire + b'\x00\x00\xff\xff'
        while True:
            out += ref['d'].decompress(data)
            if not ref['d'].eof:
                return out
            data = ref['d'].unused_data
            ref['d'] = zlib.decompressobj(-p['sw'])

    def neg_frame():
        pl = _negative_payload(neg['kind'])
        try:
            out = ref_inflate(pl)
        except zlib.error:
            neg_state['rejected'] = True
        else:
            # with earlier history a far distance is legal: the reference
            # says what the content then is
            neg_state['rejected'] = False
            enc.expected.append(('binary', out))
        ST.emit(enc, 2, pl, rsv1=1)

    neg_state = {'rejected': None}

    def transform(payload, it):
        if not negotiated or not it.get('compress'):
            enc.probes['uncompressed_mixed'] += 1
            return payload, 0
        reset = variant == 'reset_sometimes' and it.get('reset_before')
        if variant == 'bfinal' and it.get('reset_before'):
            # RFC 7692 7.2.3.4: finish the stream (BFINAL=1), append 0x00
            # ... possibly several times within one message (1-6 finished
            # streams one after the other)
            k = [1, 1, 2, 4, 6][it.get('fseed', 0) % 5]
            step = max(1, (len(payload) + k - 1) // k)
            pieces = [payload[j:j + step]
                      for j in range(0, len(payload), step)] or [b'']
            out = b''
            for piece in pieces:
                c = zlib.compressobj(pp['level'], zlib.DEFLATED,
                                     -max(9, p['sw']), 8, pp['strategy'])
                out += c.compress(piece) + c.flush(zlib.Z_FINISH)
            out += b'\x00'
            if len(pieces) >= 4:
                enc.probes['peer_bfinal1_many_streams_in_one_message'] += 1
            dp._c = None        # the peer's context starts afresh afterwards
            bfinal_used[0] = True
            enc.probes['peer_bfinal1'] += 1
        else:
            out = dp.compress(payload, reset=reset)
        if not p['snct'] and not reset and enc.compressed_msgs and \
                len(out) < len(payload) // 2 and len(payload) > 30:
            enc.probes['takeover_backref_s2c'] += 1
        ref_inflate(out)
        enc.compressed_msgs += 1
        if not payload:
            enc.probes['empty_compressed'] += 1
        if len(payload) > 65536:
            enc.probes['big_compressed'] += 1
        return out, 1

    items = []
    for it in case['items']:
        it = dict(it)
        if it['kind'] in ('text', 'binary'):
            it['cuts'] = []      # filled after compression (below)
        items.append(it)

    # encode message by message so fragment cuts can be drawn on the
    # compressed length
    neg_at = neg['at'] if neg else None
    neg_index = None
    for k, it in enumerate(items):
        if neg_at == k and negotiated:
            neg_index = len(enc.expected)
            neg_frame()
            break
        if it['kind'] in ('ping', 'pong'):
            ST.encode_items([it], enc)
            continue
        payload = ST.item_payload(it)
        wire, rsv1 = transform(payload, it)
        r = random.Random(it.get('fseed', 0))
        nfr = it.get('nfrag', 1)
        cuts = sorted(r.randrange(0, len(wire) + 1) for _ in range(nfr - 1))
        if nfr > 1 and rsv1:
            enc.probes['fragmented_compressed'] += 1
            if any(it.get('inner') or []):
                enc.probes['ctl_between_compressed_fragments'] += 1
        it2 = dict(it, cuts=cuts, lenforms=[None] * nfr)
        ST.encode_items([it2], enc,
                        transform=lambda pl, _it, w=wire, r1=rsv1: (w, r1))
        enc.s2c_payloads.append(payload)
    else:
        if neg_at is not None and neg_at >= len(items) and negotiated:
            neg_index = len(enc.expected)
            neg_frame()

    extra = []
    if mode in ('normal', 'negative', 'bad_params', 'unsolicited'):
        extra = [_ext_header(case)]
    ws = {'compress': bool(offer)}
    # application sends
    app = []
    exp = enc.expected
    counts = {}
    nth_of = []
    for e in exp:
        n = counts.get(e[0], 0)
        counts[e[0]] = n + 1
        nth_of.append((e[0], n))
    for s in case.get('sends') or []:
        ops = []
        for m in s['msgs']:
            op = {'op': 'send_text' if m['kind'] == 'text' else 'send_binary'}
            if m['kind'] == 'text':
                op['text'] = m['text']
            else:
                op['hex'] = m['hex']
            if not m.get('default'):
                op['compress'] = m['compress']
            ops.append(op)
        at = s['at']
        if at < 0 or at >= len(nth_of):
            when = {'name': 'ready'}
        else:
            when = {'name': nth_of[at][0], 'nth': nth_of[at][1]}
        app.append({'when': when, 'do': ops})
    tail = [S.eof(after=1000000)]
    sc = ST.stream_scenario(case, enc, tail, extra_headers=extra, ws=ws,
                            app=app, connect={'ping_rate': 0})
    info = {'negotiated': negotiated and mode != 'bad_params',
            'neg_index': neg_index, 'bfinal': bfinal_used[0], 'dp': dp,
            'neg_rejected': neg_state['rejected']}
    return sc, enc, info


def execute(case):
    if case.get('mode') == 'reconnect':
        return _execute_reconnect(case)
    if case.get('mode') == 'threaded':
        return _execute_threaded(case)
    if 'pair' in case:
        return _execute_pair(case)
    res = Result()
    sc, enc, info = build(case)
    tr = netsim.run(sc)
    return _judge(res, case, sc, enc, info, tr)


def _execute_pair(case):
    """Two WebSocket objects with negotiated compression alive at once,
    their event loops advanced in an interleaved order: each has its own
    contexts."""
    res = Result()
    a, b = case['pair']
    sa, ea, ia = build(a)
    sb, eb, ib = build(b)
    traces = netsim.run_multi(netsim.pair_scenario(sa, sb, case.get('order')))
    res.stats['probe:two_objects_interleaved'] += 1
    _judge(res, a, sa, ea, ia, traces[0])
    h, sig, nt = res.digest, res.sig, res.nontrivial
    _judge(res, b, sb, eb, ib, traces[1])
    res.digest = h + res.digest
    res.sig = sig + '||' + res.sig
    res.nontrivial = nt and res.nontrivial
    return res


def _judge(res, case, sc, enc, info, tr):
    mode = case['mode']
    p = case['params']
    res.stats.update(tr.world.stats)
    for k, v in enc.probes.items():
        res.stats['probe:' + k] += v
    res.sim_us = tr.world.now
    res.digest = tr.digest()
    names = tr.names()
    got = [oracle.payload_of(e.snap) for e in oracle.msg_events(tr)]
    tag = mode
    if info['bfinal'] and mode in ('normal', 'negative'):
        tag = 'peer_bfinal1'
    # ---- handshake outcome
    if mode == 'bad_params':
        if 'rejected' not in names or 'ready' in names:
            res.bad('C06/bad_params/not_rejected',
                    'ext header %r -> events %s' % (_ext_header(case), names))
        else:
            res.stats['probe:rejected_bad_params'] += 1
    elif mode == 'unsolicited' and 'rejected' in names and \
            'ready' not in names:
        # failing the handshake is what RFC 6455 4.1 asks for
        res.stats['probe:unsolicited_rejected'] += 1
    elif 'ready' not in names:
        res.bad('C06/%s/no_ready' % tag, 'header %r events %s' % (
            _ext_header(case) if mode != 'no_offer' else None, names))
    else:
        ready = [e for e in tr.events if e.name == 'ready'][0]
        want_ext = ('permessage-deflate',) if mode in (
            'normal', 'negative') else ()
        if mode != 'unsolicited' and ready.snap[2] != want_ext:
            res.bad('C06/%s/ready_extensions' % tag,
                    'Ready.extensions=%r expected %r' % (ready.snap[2],
                                                         want_ext))
    # ---- server -> client
    if mode != 'bad_params' and 'ready' in names:
        exp = enc.expected
        nperr = names.count('protocol_error')
        if mode == 'negative' and info['neg_index'] is not None and \
                info['neg_rejected']:
            if got[:len(exp)] != exp[:len(got)] or len(got) > len(exp):
                res.bad('C06/negative/wrong_content',
                        'expected prefix %r got %r' % (_short(exp), _short(got)))
            elif len(got) == len(exp) and nperr == 1:
                res.stats['probe:negative_rejected'] += 1
            elif nperr != 1:
                res.bad('C06/negative/not_reported',
                        'payload rejected by the reference inflater (%s) but '
                        'events %s' % (case['neg']['kind'], names[-6:]))
        elif mode == 'unsolicited':
            pass
        else:
            if got != exp:
                # wrong content vs. merely reported as error
                wrong = False
                for g, e in zip(got, exp):
                    if g != e:
                        wrong = True
                        break
                if wrong or len(got) > len(exp):
                    res.bad('C06/%s/wrong_content' % tag,
                            'message %d: expected %r got %r' % (
                                min(len(got), len(exp)), _short(exp[len(got) - 1:
                                                                    len(got) + 1]
                                                                if got else exp),
                                _short(got[-2:])))
                else:
                    res.bad('C06/%s/not_delivered' % tag,
                            'expected %d messages, got %d, events %s' % (
                                len(exp), len(got), names[-6:]))
    # ---- client -> server
    if tr.world.socks:
        wire = oracle.Wire(tr.world.socks[-1])
        negotiated = info['negotiated']
        dp = info['dp']
        data_frames = [f for f in wire.frames if f.opcode in (1, 2)]
        ok_calls = [c for c in tr.calls if c.outcome == 'ok'
                    and c.op in ('send_text', 'send_binary')]
        if mode == 'unsolicited':
            if any(f.rsv1 for f in wire.frames):
                res.bad('C06/unsolicited/rsv1_without_offer',
                        'compress=False (nothing offered) but the server '
                        'named permessage-deflate and the client set RSV1')
        elif len(data_frames) != len(ok_calls):
            res.bad('C06/%s/frame_count' % tag,
                    '%d accepted sends, %d data frames on the wire' % (
                        len(ok_calls), len(data_frames)))
        else:
            prev_c = 0
            for c, f in zip(ok_calls, data_frames):
                arg = c.spec['text'].encode('utf-8') if c.op == 'send_text' \
                    else bytes.fromhex(c.spec['hex'])
                want_rsv1 = negotiated and c.spec.get('compress', True)
                if not negotiated and f.rsv1:
                    res.bad('C06/%s/rsv1_without_negotiation' % tag, repr(f))
                    break
                if not c.spec.get('compress', True):
                    res.stats['probe:client_compress_false'] += 1
                    if f.rsv1:
                        res.bad('C06/%s/compress_false_sent_compressed' % tag,
                                repr(f))
                        break
                if f.rsv1:
                    try:
                        out = dp.decompress(f.payload)
                    except zlib.error as e:
                        res.bad('C06/%s/peer_cannot_inflate' % tag,
                                'sw=%s cw=%s cnct=%s: %s on %r' % (
                                    p['sw'], p['cw'], p['cnct'], e, f))
                        break
                    if prev_c and not p['cnct'] and len(arg) > 30 and \
                            len(f.payload) < len(arg) // 2:
                        res.stats['probe:takeover_backref_c2s'] += 1
                    prev_c += 1
                else:
                    out = f.payload
                    if want_rsv1:
                        res.bad('C06/%s/not_compressed' % tag,
                                'compress requested and negotiated, RSV1 clear')
                        break
                if out != arg:
                    res.bad('C06/%s/client_message_corrupt' % tag,
                            'sent %r peer decoded %r' % (arg[:40], out[:40]))
                    break
            if not negotiated and ok_calls:
                res.stats['probe:no_rsv1_without_negotiation'] += 1
        for k, m in oracle.wire_problems(wire, info['negotiated'] or
                                         mode == 'unsolicited'):
            res.xobs.append('C03/' + k)
    for e in tr.events:
        # what was delivered stays what it was: an application that queues
        # its events reads them after later messages have been inflated
        if e.name in ('text', 'binary') and netsim.snapshot(e.obj) != e.snap:
            res.bad('C06/%s/payload_changed_after_delivery' % tag,
                    'event %d (%s, %d bytes at delivery) reads differently '
                    'at the end of the run' % (e.index, e.name,
                                               len(e.snap[2])))
            break
        if e.name == 'binary' and e.snap[1] != 'bytes':
            res.bad('C06/%s/binary_not_bytes' % tag,
                    'Binary.data is %s' % e.snap[1])
            break
    for k, m in oracle.trace_sanity(tr):
        res.xobs.append('C07/' + k)
        if k in ('hang', 'escaped'):
            res.bad('C06/%s/%s' % (tag, k), m)
    res.nontrivial = 'ready' in names and enc.compressed_msgs >= 2
    res.sig = '%s|%d%d%d%d|%s|%s' % (mode, p['sw'], p['cw'], p['snct'],
                                     p['cnct'], case['peer']['variant'],
                                     ''.join(enc.layout))
    res.sample = {'mode': mode, 'params': p, 'peer': case['peer'],
                  'ext_header': _ext_header(case).decode('latin-1')
                  if mode != 'no_offer' else None,
                  'server_messages': len(case['items']),
                  'client_sends': sum(len(s['msgs']) for s in case['sends']),
                  'events': names[:16]}
    return res


def _short(lst):
    out = []
    for x in lst[:3]:
        out.append(tuple((v[:24] if isinstance(v, (bytes, str)) else v)
                         for v in x))
    return out
