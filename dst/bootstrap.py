"""Process bootstrap: locate the lomond tree under test, pin the hash seed,
silence lomond's logger, take control of the garbage collector.

Imported first by every entry point.  Nothing here draws from a PRNG or
reads a clock.
"""
import gc
import logging
import os
import sys

VERIF_DIR = os.path.dirname(os.path.dirname(os.path.abspath(__file__)))
REPO = os.environ.get('LOMOND_REPO', '/repo')


def reexec_with_fixed_hashseed():
    """Re-exec the interpreter with PYTHONHASHSEED=0 unless already pinned.

    lomond only iterates one-element sets, but replay must not depend on that
    staying true.  The determinism self-test deliberately runs under another
    value (VERIF_KEEP_HASHSEED=1 keeps whatever is set)."""
    if os.environ.get('VERIF_KEEP_HASHSEED') == '1':
        return
    if os.environ.get('PYTHONHASHSEED') != '0':
        env = dict(os.environ)
        env['PYTHONHASHSEED'] = '0'
        os.execve(sys.executable, [sys.executable] + sys.argv, env)


class _FormatAndDrop(logging.Handler):
    """What an application's handler does, minus the output: the message is
    formatted (which calls repr() on the arguments); like StreamHandler, a
    formatting error is swallowed."""
    errors = 0

    def createLock(self):
        # no handler lock: under ThreadSim a thread may be parked inside
        # repr() of a lomond object (a traced line) while formatting; a real
        # lock held there would block the next logging thread for real
        self.lock = None

    def emit(self, record):
        try:
            record.getMessage()
        except Exception:
            _FormatAndDrop.errors += 1


_SNAP = []      # (container object, shallow copy) of lomond's process state
_CLASS_ATTRS = {}


def snapshot_process_state():
    """Remember lomond's module-level and class-level containers as they
    are right after import: what a freshly started process has."""
    import lomond
    import types
    del _SNAP[:]
    _CLASS_ATTRS.clear()
    seen = set()
    for name, mod in list(sys.modules.items()):
        if not name.startswith('lomond') or mod is None:
            continue
        holders = [mod] + [v for v in vars(mod).values()
                           if isinstance(v, type) and
                           getattr(v, '__module__', '').startswith('lomond')]
        for h in holders:
            if isinstance(h, type):
                _CLASS_ATTRS[h] = set(vars(h))
            for k, v in list(vars(h).items()):
                if k.startswith('__') or id(v) in seen:
                    continue
                if isinstance(v, (dict, list, set, bytearray)) and \
                        not isinstance(v, types.ModuleType):
                    seen.add(id(v))
                    _SNAP.append((v, type(v)(v)))


def reset_process_state():
    """Put lomond's process-wide containers back to their state at import
    (a cold process): lazily filled caches and tables are empty again."""
    for obj, copy_ in _SNAP:
        if isinstance(obj, dict):
            obj.clear()
            obj.update(copy_)
        elif isinstance(obj, set):
            obj.clear()
            obj.update(copy_)
        else:
            obj[:] = copy_
    for cls, names in _CLASS_ATTRS.items():
        for k in [k for k in vars(cls) if k not in names]:
            if isinstance(vars(cls)[k], (dict, list, set, bytearray)):
                try:
                    delattr(cls, k)
                except (AttributeError, TypeError):
                    pass


def set_debug_logging(on):
    """One more configuration the runs vary: the application has enabled
    DEBUG logging for the 'lomond' logger (off in most runs)."""
    logging.getLogger('lomond').setLevel(
        logging.DEBUG if on else logging.CRITICAL + 1)


def setup():
    # the tree under test always wins over any installed copy
    if REPO not in sys.path:
        sys.path.insert(0, REPO)
    if VERIF_DIR not in sys.path:
        sys.path.insert(0, VERIF_DIR)
    os.environ.setdefault('LOMOND_VERIF', '1')
    logger = logging.getLogger('lomond')
    logger.handlers[:] = [_FormatAndDrop()]
    logger.propagate = False
    logger.setLevel(logging.CRITICAL + 1)
    # Parser <-> its coroutine form a cycle with __del__; collecting it at a
    # random moment would close a generator mid-run.  We collect between runs.
    gc.disable()
    # locks that lomond creates while it is being imported must be seen by
    # the simulator as well (see world.LazyLock)
    import threading
    from . import world
    if 'lomond' not in sys.modules:
        # everything else lomond imports is loaded first, with the real module
        import platform
        import subprocess     # noqa
        import select         # noqa
        import socket         # noqa
        import ssl            # noqa
        import zlib           # noqa
        import json           # noqa
        import six            # noqa
        import six.moves.urllib.parse   # noqa
        platform.platform()
        before = set(sys.modules)
        sys.modules['threading'] = world.threading_proxy()
        try:
            import lomond  # noqa
            import pkgutil
            import importlib
            for mi in pkgutil.iter_modules(lomond.__path__):
                try:
                    importlib.import_module('lomond.' + mi.name)
                except Exception:
                    pass
        finally:
            sys.modules['threading'] = threading
        for name in set(sys.modules) - before:
            m = sys.modules.get(name)
            if m is not None and not name.startswith('lomond') and getattr(
                    getattr(m, 'threading', None), '_verif_proxy', False):
                m.threading = threading
    import lomond  # noqa
    snapshot_process_state()
    import lomond.utf8validator as u8
    mod = getattr(u8.Utf8Validator, '__module__', '')
    if not mod.startswith('lomond'):
        raise RuntimeError('wsaccel validator in use; checks assume the '
                           'pure-Python validator')
    got = os.path.realpath(os.path.dirname(lomond.__file__))
    want = os.path.realpath(os.path.join(REPO, 'lomond'))
    if got != want:
        raise RuntimeError('lomond imported from %s, expected %s' % (got, want))
    return lomond
