"""The simulated world: virtual clock, timeline, fake socket / select / ssl /
time / os / random namespaces, the scripted peer, and install().

Every source of nondeterminism lomond reads is routed to the World that is
current for the run.  A World is built from plain scenario data; it never
draws a random number itself.
"""
import collections
import errno
import heapq
import math
import socket as _real_socket
import ssl as _real_ssl
import struct
import weakref

from . import peer

CURRENT = None          # the World of the run in progress


class SimHang(BaseException):
    """Step budget exhausted or blocked forever.  BaseException so that
    lomond's `except Exception` cannot swallow it."""


class SimAbort(BaseException):
    """Tear-down of a run (ThreadSim)."""


class InjectedError(Exception):
    """An arbitrary non-socket exception injected at a seam."""


# ---------------------------------------------------------------------------

class SockState(object):
    """Plain-data record of one fake TCP connection.  The World keeps these
    (never the socket objects themselves, only weak references), so the World
    cannot keep a socket alive."""

    def __init__(self, world, index, fd, family):
        self.world = world
        self.index = index
        self.fd = fd
        self.family = family
        self.conn = None            # ConnSpec this socket belongs to
        self.addr = None
        self.connected = False
        self.closed = False
        self.shutdown_called = False
        self.timeout = None
        self.tls = False
        self.tls_buf = b''          # decrypted, not yet handed to the client
        self.inq = collections.deque()   # chunks (bytes) readable in order
        self.in_eof = False         # EOF after inq drains
        self.in_rst = False         # ECONNRESET after inq drains
        self.dead = False           # transport failed (after a write fault)
        self.out = []               # (seq, now, bytes) per sendall
        self.out_bytes = bytearray()
        self.avail = []             # (seq, now, cumulative_len) chunk arrival
        self.avail_total = 0
        self.delivered = []         # (seq, now, n) per successful recv
        self.delivered_total = 0
        self.n_sendall = 0
        self.n_recv = 0
        self.ref = None             # weakref to the FakeSocket
        self.role = 'target'        # or 'proxy'
        self.server = None          # ServerProc
        self.closed_by_gc = False
        self.sni = None
        self.sockopts = []
        self.rcvlowat = 1

    # -- readability as the kernel would report it
    def readable(self):
        if self.in_eof or self.in_rst or self.dead:
            return True
        if self.rcvlowat > 1 and not self.tls:
            return sum(len(c) for c in self.inq) >= self.rcvlowat
        return bool(self.inq)

    def enqueue(self, data):
        """A chunk arrives from the peer."""
        if self.closed or not data:
            return
        w = self.world
        limit = self.conn.cut_at if self.conn is not None else None
        if limit is not None:
            room = limit - self.avail_total
            if room < len(data):
                data = data[:max(room, 0)]
                if data:
                    self._push(data)
                self._cut()
                return
        self._push(data)
        if limit is not None and self.avail_total >= limit:
            self._cut()

    def _push(self, data):
        w = self.world
        self.inq.append(bytes(data))
        self.avail_total += len(data)
        self.avail.append((w.next_seq(), w.now, self.avail_total))

    def _cut(self):
        kind = self.conn.cut_kind
        self.world.fired('cut_' + kind)
        if kind == 'rst':
            self.in_rst = True
        elif kind == 'silence':
            pass        # the peer just stops talking, the connection stays up
        else:
            self.in_eof = True
        if self.server is not None:
            self.server.kill()


class FakeSocket(object):
    """What lomond sees as a socket (plain or TLS-wrapped)."""

    def __init__(self, state):
        self._st = state
        state.ref = weakref.ref(self)

    def __getattr__(self, name):
        # only an SSL socket has unwrap()
        if name == 'unwrap' and self.__dict__.get('_st') is not None and \
                self._st.tls:
            return self._unwrap
        raise AttributeError(name)

    def _unwrap(self):
        """SSLSocket.unwrap(): TLS shutdown (close_notify both ways), then
        the same object goes on as a plain socket."""
        st = self._st
        w = st.world
        w.op('unwrap', st.index)
        w.stats['probe:tls_unwrap_called'] += 1
        if st.closed:
            raise OSError(errno.EBADF, 'Bad file descriptor')
        mode = st.conn.tls_unwrap if st.conn is not None else None
        if mode == 'fail' or st.dead:
            w.fired('tls_unwrap_fails')
            raise _real_ssl.SSLError(6, 'TLS/SSL connection has been closed '
                                        '(EOF) {injected}')
        if mode == 'stall':
            w.fired('tls_unwrap_stalls')
            if st.timeout is None:
                raise SimHang('blocked forever in SSLSocket.unwrap()')
            w.advance(w.now + int(st.timeout * 1e6))
            raise _real_socket.timeout('The read operation timed out')
        return self

    # -- set-up calls
    def setsockopt(self, level, opt, value=None, *a):
        st = self._st
        st.sockopts.append((level, opt, value))
        if level == _real_socket.SOL_SOCKET and \
                opt == _real_socket.SO_RCVLOWAT and isinstance(value, int):
            # Linux: poll() reports the socket readable only once that many
            # bytes are queued (or on EOF / error)
            st.rcvlowat = max(1, value)

    def settimeout(self, t):
        self._st.timeout = t

    def fileno(self):
        return self._st.fd

    def connect(self, sa):
        st = self._st
        w = st.world
        w.op('connect', st.index)
        w.connect(st, sa)

    # -- data
    def sendall(self, data):
        st = self._st
        w = st.world
        data = bytes(data)
        k = st.n_sendall
        st.n_sendall += 1
        w.op('sendall', st.index, k, len(data))
        if st.closed:
            raise OSError(errno.EBADF, 'Bad file descriptor')
        fault = w.fault_for('sendall', st, k, data)
        if fault is None and st.dead:
            raise OSError(errno.EPIPE, 'Broken pipe')
        if fault is not None:
            kind = fault['kind']
            part = fault.get('partial', 0)
            if part:
                self._record_out(data[:min(part, len(data))])
            if kind not in ('timeout', 'exc', 'eintr', 'eagain', 'enobufs') \
                    or fault.get('fatal'):
                # EPIPE / ECONNRESET: the connection is gone.  A time-out
                # (peer not reading) or an arbitrary exception leaves the
                # read side as it was.
                st.dead = True
                if st.server is not None:
                    st.server.kill()
            w.fired('sendall_' + kind)
            w.fault_marks.append(('sendall', st.index, k, st.delivered_total,
                                  len(st.out_bytes), w.next_seq(),
                                  st.delivered_total + len(st.tls_buf or b'')
                                  + sum(len(c) for c in st.inq)))
            if kind == 'epipe':
                raise OSError(errno.EPIPE, 'Broken pipe')
            if kind == 'reset':
                raise OSError(errno.ECONNRESET, 'Connection reset by peer')
            if kind == 'timeout':
                raise _real_socket.timeout('timed out')
            if kind == 'eintr':
                raise OSError(errno.EINTR, 'Interrupted system call')
            if kind == 'eagain':
                raise OSError(errno.EAGAIN, 'Resource temporarily unavailable')
            if kind == 'enobufs':
                raise OSError(errno.ENOBUFS, 'No buffer space available')
            raise InjectedError('injected {failure} in sendall {0} }{')
        if w.sched is not None:
            w.sched.split_write(self, data)
        else:
            self._record_out(data)

    def _record_out(self, data):
        st = self._st
        w = st.world
        st.out.append((w.next_seq(), w.now, data))
        st.out_bytes.extend(data)
        if st.server is not None:
            st.server.on_client_write()

    def recv_into(self, buf, count=0):
        size = len(buf)
        if count and count > size:
            if not self._st.tls:
                # what a kernel socket does
                raise ValueError('buffer too small for requested bytes')
            count = size        # what the ssl module does
        data = self._recv(count or size)
        n = len(data)
        memoryview(buf)[:n] = data
        return n

    def recv(self, count):
        return self._recv(count)

    def _recv(self, count):
        st = self._st
        w = st.world
        k = st.n_recv
        st.n_recv += 1
        w.n_recv_total += 1
        if w.n_recv_total > w.max_recvs:
            raise SimHang('recv budget exhausted (%d)' % w.max_recvs)
        w.op('recv', st.index, k, count)
        if st.closed:
            raise OSError(errno.EBADF, 'Bad file descriptor')
        fault = w.fault_for('recv', st, k)
        if fault is not None:
            kind = fault['kind']
            w.fired('recv_' + kind)
            w.recv_fault_marks.append((st.index, k, w.seq, w.now))
            if kind == 'reset':
                raise OSError(errno.ECONNRESET, 'Connection reset by peer')
            if kind == 'timeout':
                raise _real_socket.timeout('timed out')
            if kind == 'ssl':
                # what a corrupted TLS record looks like to the reader
                raise _real_ssl.SSLError(
                    1, '[SSL: DECRYPTION_FAILED_OR_BAD_RECORD_MAC] decryption '
                    'failed or bad record mac (injected)')
            raise InjectedError('injected {failure} in recv {0} {')
        if not (st.tls and st.tls_buf):
            # blocking read (proxy phase, or a spurious wake-up)
            if not st.readable():
                w.block_until_readable(st, st.timeout)
                if not st.readable():
                    w.fired('recv_timeout')
                    raise _real_socket.timeout('timed out')
        if st.tls:
            if not st.tls_buf:
                if st.inq:
                    st.tls_buf = st.inq.popleft()
                    if st.conn is not None and st.conn.tls_readahead:
                        # a TLS layer that decrypts everything it has read
                        while st.inq:
                            st.tls_buf += st.inq.popleft()
                elif st.in_rst or st.dead:
                    raise OSError(errno.ECONNRESET, 'Connection reset by peer')
                else:
                    return self._deliver(b'')
            limit = count
            short = w.short_read(st, k, min(count, len(st.tls_buf)))
            if short is not None:
                limit = short
            data, st.tls_buf = st.tls_buf[:limit], st.tls_buf[limit:]
            return self._deliver(data)
        if st.inq:
            chunk = st.inq[0]
            limit = count
            short = w.short_read(st, k, min(count, len(chunk)))
            if short is not None:
                limit = short
            if len(chunk) <= limit:
                st.inq.popleft()
                data = chunk
            else:
                data = chunk[:limit]
                st.inq[0] = chunk[limit:]
            return self._deliver(data)
        if st.in_rst or st.dead:
            raise OSError(errno.ECONNRESET, 'Connection reset by peer')
        return self._deliver(b'')

    def _deliver(self, data):
        st = self._st
        w = st.world
        st.delivered_total += len(data)
        st.delivered.append((w.next_seq(), w.now, len(data)))
        return data

    def pending(self):
        # only meaningful on TLS sockets; plain sockets have no such method
        st = self._st
        if not st.tls:
            raise AttributeError('pending')
        if st.tls_buf:
            st.world.probe('tls_pending_nonzero')
        return len(st.tls_buf)

    def __getattribute__(self, name):
        # a plain socket must not *have* a pending attribute (lomond tests
        # hasattr); keep the TLS model and the plain model in one class.
        if name == 'pending' and not object.__getattribute__(self, '_st').tls:
            raise AttributeError(name)
        return object.__getattribute__(self, name)

    # -- tear-down
    def shutdown(self, how):
        st = self._st
        w = st.world
        w.op('shutdown', st.index)
        st.shutdown_called = True
        if st.closed:
            raise OSError(errno.EBADF, 'Bad file descriptor')
        fault = w.fault_for('shutdown', st, 0)
        if fault is not None or st.dead or st.in_rst:
            # what a reset socket really does
            w.fired('shutdown_enotconn')
            kind = fault['kind'] if fault else 'enotconn'
            if kind == 'exc':
                raise InjectedError('injected failure in shutdown')
            raise OSError(errno.ENOTCONN, 'Transport endpoint is not connected')

    def close(self):
        st = self._st
        w = st.world
        w.op('close', st.index)
        already = st.closed
        st.closed = True
        if st.server is not None:
            st.server.kill()
        w.unregister_fd(st.fd)
        if not already:
            fault = w.fault_for('close', st, 0)
            if fault is not None:
                w.fired('close_raises')
                raise OSError(errno.EIO, 'injected failure in close')

    def __del__(self):
        try:
            st = self._st
            if not st.closed:
                st.closed = True
                st.closed_by_gc = True
                st.world.unregister_fd(st.fd)
        except Exception:
            pass


class FakePoll(object):
    def __init__(self, world):
        self._w = world
        self._fds = {}
        world.polls.append(weakref.ref(self))
        world.n_polls_created += 1

    def register(self, fd, events):
        self._fds[fd] = events
        self._w.registered.setdefault(fd, 0)
        self._w.registered[fd] += 1

    def unregister(self, fd):
        self._fds.pop(fd, None)

    def poll(self, timeout_ms=None):
        w = self._w
        k = w.n_poll
        w.n_poll += 1
        w.op('poll', k, timeout_ms)
        if w.n_poll > w.max_polls:
            raise SimHang('poll budget exhausted (%d)' % w.max_polls)
        conn = w.cur_conn
        kc = k
        if conn is not None:
            kc = conn.n_poll
            conn.n_poll += 1
        fault = w.fault_for('poll', None, kc)
        if fault is not None:
            w.fired('poll_raises')
            if fault['kind'] == 'oserror':
                raise OSError(errno.EBADF, 'injected failure in poll')
            raise InjectedError('injected {failure} in poll {1}')
        states = [w.by_fd.get(fd) for fd in self._fds]
        states = [s for s in states if s is not None]

        def ready():
            return self._ready(states)

        w.run_due()
        r = ready()
        if r:
            return r
        if timeout_ms is None or timeout_ms < 0:
            deadline = None
        else:
            # CPython rounds poll time-outs up to whole milliseconds
            deadline = w.now + int(math.ceil(timeout_ms)) * 1000
            deadline += w.wake_latency(kc)
        if w.sched is not None:
            return w.sched.blocking_poll(ready, deadline)
        while True:
            nxt = w.next_time()
            if nxt is None or (deadline is not None and nxt > deadline):
                if deadline is None:
                    raise SimHang('blocked forever in poll with empty timeline')
                w.advance(deadline)
                return ready()
            w.advance(nxt)
            w.run_due()
            r = ready()
            if r:
                return r


    def _ready(self, states):
        return [(s.fd, 1) for s in states if s.readable()]


class FakeEpoll(FakePoll):
    """select.epoll over the same socket model, for a tree whose default
    selector is built on it.  Level-triggered unless EPOLLET was registered;
    an edge-triggered descriptor is reported once per arrival (data, FIN or
    reset), as the kernel does, not for as long as something is unread."""
    IN, PRI, ERR, HUP, RDHUP, ET = 1, 2, 8, 16, 0x2000, 1 << 31

    def __init__(self, world):
        FakePoll.__init__(self, world)
        self._seen = {}
        self.closed = False

    def modify(self, fd, events):
        self._fds[fd] = events

    def close(self):
        self.closed = True

    def fileno(self):
        return 1 << 20

    def poll(self, timeout=None, maxevents=-1):
        if timeout is not None and timeout >= 0:
            timeout = timeout * 1000.0
        else:
            timeout = None
        r = FakePoll.poll(self, timeout)
        if maxevents is not None and maxevents > 0:
            r = r[:maxevents]
        for fd, _ in r:
            st = self._w.by_fd.get(fd)
            if st is not None:
                self._seen[fd] = self._generation(st)
        return r

    @staticmethod
    def _generation(s):
        return (s.avail_total, s.in_eof, s.in_rst, s.dead)

    def _ready(self, states):
        out = []
        for s in states:
            if not s.readable():
                continue
            ev = self._fds.get(s.fd, 0)
            if ev & self.ET and self._seen.get(s.fd) == self._generation(s):
                self._w.fired('edge_triggered_not_reported_again')
                continue
            flags = self.IN if s.inq else 0
            if s.in_eof:
                flags |= self.RDHUP | self.IN
            if s.in_rst or s.dead:
                flags |= self.HUP | self.ERR
            out.append((s.fd, flags or self.IN))
        return out


# ---------------------------------------------------------------------------
# the scripted peer

class ServerProc(object):
    """Interprets a list of steps against one SockState.

    Steps (dicts):
      {'op': 'await_request'}                     until client wrote CRLFCRLF
      {'op': 'reply', 'tmpl': hex, 'accept': mode, 'cuts': [...], 'gap': us}
      {'op': 'send', 'hex': .., 'after': us}      one chunk == one read
      {'op': 'await_close', 'timeout': us|None}   until a Close frame decoded
      {'op': 'await_frames', 'n': k}              until k client frames
      {'op': 'eof', 'after': us} / {'op': 'rst', 'after': us}
      {'op': 'silence'}                           never does anything again
    Reactive policy (dict `react`):
      {'pong': {'delay': us, 'skip': [k,...], 'limit': n}}   answer client Pings
    """

    def __init__(self, world, st, steps, react=None, n_http=1):
        self.w = world
        self.n_http = n_http
        self.req_ends = []
        self.st = st
        self.steps = steps
        self.pc = 0
        self.alive = True
        self.waiting = None
        self.react = react or {}
        self.req_end = None
        self.key = None
        self._decoded = 0
        self._nframes = 0
        self._saw_close = False
        self._npings = 0
        self._wait_token = 0
        self.schedule(0)

    def kill(self):
        self.alive = False

    def schedule(self, delay):
        self.w.at(self.w.now + delay, self.run)

    # -- decode what the client has written so far (for await_* and react)
    def _scan(self):
        st = self.st
        buf = st.out_bytes
        self._scan_requests_only()
        if len(self.req_ends) < self.n_http:
            return
        frames, rest = peer.decode_frames(bytes(buf), self._decoded)
        self._decoded = rest
        for f in frames:
            self._nframes += 1
            if f.opcode == peer.OP_CLOSE:
                self._saw_close = True
            elif f.opcode == peer.OP_PING:
                k = self._npings
                self._npings += 1
                pol = self.react.get('pong')
                if pol and k not in pol.get('skip', ()) and \
                        k < pol.get('limit', 1 << 30):
                    data = peer.enc_frame(peer.OP_PONG, f.payload)
                    self.w.at(self.w.now + pol.get('delay', 0),
                              lambda d=data: self._react_send(d))

    def _scan_requests_only(self):
        buf = self.st.out_bytes
        while len(self.req_ends) < self.n_http:
            start = self.req_ends[-1] if self.req_ends else 0
            idx = buf.find(b'\r\n\r\n', start)
            if idx < 0:
                return
            self.req_ends.append(idx + 4)
            self.req_end = idx + 4
            self._decoded = self.req_end
            for line in bytes(buf[start:idx]).split(b'\r\n')[1:]:
                name, _, value = line.partition(b':')
                if name.strip().lower() == b'sec-websocket-key':
                    self.key = value.strip()
                    self.w.keys_seen.append(self.key)

    def _react_send(self, data):
        if self.alive and not self.st.closed:
            self.st.enqueue(data)

    def on_client_write(self):
        if not self.alive:
            return
        self._scan()
        if self.waiting is not None and self._cond(self.waiting):
            self.waiting = None
            self._wait_token += 1
            self.pc += 1
            self.schedule(0)

    def _cond(self, step):
        op = step['op']
        if op == 'await_request':
            self._scan_requests_only()
            return len(self.req_ends) >= step.get('nth', 1)
        if op == 'await_close':
            return self._saw_close
        if op == 'await_frames':
            return self._nframes >= step['n']
        return True

    def _timeout(self, token):
        if self.alive and self.waiting is not None and \
                token == self._wait_token:
            self.waiting = None
            self._wait_token += 1
            self.pc += 1
            self.run()

    def run(self):
        """Execute steps until one has to wait."""
        while self.alive and self.pc < len(self.steps):
            step = self.steps[self.pc]
            op = step['op']
            after = step.get('after', 0)
            if after and not step.get('_armed'):
                # wait `after` microseconds, then come back to this step
                step = dict(step)
                step['_armed'] = True
                self.steps = list(self.steps)
                self.steps[self.pc] = step
                self.schedule(after)
                return
            if op in ('await_request', 'await_close', 'await_frames'):
                self._scan()
                if not self._cond(step):
                    self.waiting = step
                    tmo = step.get('timeout')
                    if tmo is not None:
                        tok = self._wait_token
                        self.w.at(self.w.now + tmo,
                                  lambda t=tok: self._timeout(t))
                    return
            elif op == 'reply':
                data = self._build_reply(step)
                cuts = step.get('cuts') or []
                gaps = step.get('gaps') or [step.get('gap', 0)]
                pieces = split_at(data, cuts)
                if any(gaps):
                    t = self.w.now
                    for i, p in enumerate(pieces):
                        if i:
                            t += gaps[(i - 1) % len(gaps)]
                        self.w.at(t, lambda p=p: self._react_send(p))
                    # the script continues once the last piece is out
                    self.pc += 1
                    self.w.at(t, self.run)
                    return
                else:
                    for p in pieces:
                        self.st.enqueue(p)
            elif op == 'send':
                self.st.enqueue(bytes.fromhex(step['hex']))
            elif op == 'eof':
                self.st.in_eof = True
                self.w.marks.append(('eof', self.w.now, self.st.index))
                self.w.fired('server_eof')
                self.alive = False
            elif op == 'rst':
                self.st.in_rst = True
                self.w.marks.append(('rst', self.w.now, self.st.index))
                self.w.fired('server_rst')
                self.alive = False
            elif op == 'silence':
                self.alive = False
            self.pc += 1

    def _build_reply(self, step):
        tmpl = bytes.fromhex(step['tmpl'])
        if b'@@ACCEPT@@' in tmpl:
            key = self.key if self.key is not None else b''
            good = peer.accept_for(key)
            mode = step.get('accept', 'ok')
            if mode == 'prev_key':
                prev = self.w.keys_seen[-2] if len(self.w.keys_seen) > 1 \
                    else b'AAAAAAAAAAAAAAAAAAAAAA=='
                val = peer.accept_for(prev)
            else:
                val = accept_variant(good, mode, step)
            tmpl = tmpl.replace(b'@@ACCEPT@@', val)
        return tmpl


def accept_variant(good, mode, step=None):
    if mode == 'ok':
        return good
    if mode == 'swapcase':
        v = good.swapcase()
        return v
    if mode == 'lower':
        return good.lower()
    if mode == 'upper':
        return good.upper()
    if mode == 'truncated':
        return good[:-2]
    if mode == 'extended':
        return good + b'A'
    if mode == 'prefix20':
        return good[:20]
    if mode == 'other_key':
        return peer.accept_for(b'dGhlIHNhbXBsZSBub25jZQ==')
    if mode == 'fixed':
        return bytes.fromhex(step['accept_hex'])
    if mode == 'urlsafe':
        return good.replace(b'+', b'-').replace(b'/', b'_')
    if mode == 'empty':
        return b''
    if mode == 'reversed':
        return good[::-1]
    # bytes that are white space only in some 8-bit or Unicode reading
    # (NBSP, NEL): not part of the digest, not optional white space either
    if mode == 'nbsp_suffix':
        return good + b'\xa0'
    if mode == 'nbsp_prefix':
        return b'\xa0' + good
    if mode == 'nel_suffix':
        return good + b'\x85'
    if mode == 'vt_suffix':
        return good + b'\x0b'
    if mode == 'ff_prefix':
        return b'\x0c' + good
    if mode == 'us_suffix':
        return good + b'\x1f'
    raise ValueError(mode)


def split_at(data, cuts):
    out = []
    prev = 0
    for c in sorted(set(cuts)):
        if 0 < c < len(data) and c > prev:
            out.append(data[prev:c])
            prev = c
    out.append(data[prev:])
    return [p for p in out if p]


# ---------------------------------------------------------------------------

class ConnSpec(object):
    """Per connection-attempt part of a scenario."""

    def __init__(self, d):
        d = d or {}
        self.resolve = d.get('resolve', 'ok')     # ok | gaierror | empty
        # one entry per resolved address
        self.addrs = d.get('addrs') or [{}]
        self.server = d.get('server') or []
        self.react = d.get('react') or {}
        self.cut_at = d.get('cut_at')
        self.cut_kind = d.get('cut_kind', 'eof')
        self.tls_fail = d.get('tls_fail')         # None | 'connect' | 'wrap'
        # proxy phase (spoken on the same socket before the server script)
        self.proxy = d.get('proxy')
        self.faults = d.get('faults') or []
        self.short_reads = d.get('short_reads') or {}
        self.tls_readahead = bool(d.get('tls_readahead'))
        # what SSLSocket.unwrap() does on this connection: None (the peer
        # answers the close_notify), 'fail' (peer gone / no orderly TLS
        # shutdown: ssl.SSLError, an OSError), 'stall' (no answer)
        self.tls_unwrap = d.get('tls_unwrap')
        self.used_sockets = []
        self.n_poll = 0
        self.host = self.port = None


class World(object):
    def __init__(self, scen):
        self.scen = scen
        self.now = 0
        self.epoch = float(scen.get('epoch', 0.0))
        self.seq = 0
        self.timeline = []
        self._tl_seq = 0
        self.ops = []
        self.stats = collections.Counter()
        self.socks = []             # SockState
        self.by_fd = {}
        self.registered = {}
        self.polls = []
        self.n_polls_created = 0
        self.n_poll = 0
        self.max_polls = scen.get('max_polls', 20000)
        self.n_recv_total = 0
        self.max_recvs = scen.get('max_recvs', 4 * self.max_polls + 20000)
        self.max_time = scen.get('max_time_us', 10 ** 12)
        self.conn_specs = [] if scen.get('conns_by_host') is not None else \
            [ConnSpec(c) for c in scen.get('conns', [{}])]
        self.conn_index = -1
        self.cur_conn = None
        self.urandom_log = []
        self._urandom_ctr = 0
        self.mask_mode = scen.get('mask', 'prng')
        self._mask_ctr = 0
        self.rand_values = list(scen.get('random') or [])
        self._rand_ctr = 0
        self.latency = scen.get('wake_latency') or {}
        self.env = dict(scen.get('environ') or {})
        self.sched = None           # ThreadSim scheduler (None in NetSim)
        self.exit_waits = []
        self.fault_marks = []
        self.recv_fault_marks = []     # (socket, k, seq at the time, now)
        self.keys_seen = []
        self.marks = []
        self.host_specs = {}
        self.host_count = {}
        self.sel_created = 0
        self.sel_closed = 0

    # -- bookkeeping
    def next_seq(self):
        self.seq += 1
        return self.seq

    def op(self, *rec):
        self.ops.append((self.next_seq(), self.now) + rec)

    def fired(self, kind):
        self.stats['fault:' + kind] += 1

    def probe(self, name):
        self.stats['probe:' + name] += 1

    def time(self):
        return self.epoch + self.now / 1e6

    # -- timeline
    def at(self, t, fn):
        self._tl_seq += 1
        heapq.heappush(self.timeline, (t, self._tl_seq, fn))

    def next_time(self):
        return self.timeline[0][0] if self.timeline else None

    def advance(self, t):
        if t > self.now:
            self.now = t
        if self.now > self.max_time:
            raise SimHang('virtual time budget exhausted')

    def run_due(self):
        while self.timeline and self.timeline[0][0] <= self.now:
            _, _, fn = heapq.heappop(self.timeline)
            fn()

    def sleep(self, us):
        """Virtual time passes while the caller is busy / asleep."""
        self.advance(self.now + int(us))

    def block_until_readable(self, st, timeout_s):
        deadline = None if timeout_s is None else \
            self.now + int(round(timeout_s * 1e6))
        if self.sched is not None and self.sched.active and \
                self.sched.current is not None:
            # ThreadSim: other threads run while this one blocks in recv()
            self.sched.blocking_poll(
                lambda: [1] if st.readable() else [], deadline)
            return
        self.run_due()
        while not st.readable():
            nxt = self.next_time()
            if nxt is None or (deadline is not None and nxt > deadline):
                if deadline is None:
                    raise SimHang('blocked forever in recv')
                self.advance(deadline)
                return
            self.advance(nxt)
            self.run_due()

    def wake_latency(self, k):
        lat = self.latency
        if not lat:
            return 0
        v = lat.get(str(k))
        if v is None:
            v = lat.get('*', 0)
        if v:
            self.fired('wake_latency')
        return v

    # -- faults
    def fault_for(self, op, st, k, data=None):
        conn = st.conn if st is not None else self.cur_conn
        if conn is None:
            return None
        for f in conn.faults:
            if f['op'] != op:
                continue
            if f.get('first_byte') is not None:
                if data is None or not data or data[0] != f['first_byte'] \
                        or f.get('_used'):
                    continue
                f['_used'] = True
                return f
            if f.get('k') is not None and f['k'] != k:
                continue
            if f.get('k_from') is not None and k < f['k_from']:
                continue
            if f.get('role') and st is not None and f['role'] != st.role:
                continue
            return f
        return None

    def short_read(self, st, k, avail):
        sr = st.conn.short_reads if st.conn is not None else None
        if not sr or avail <= 1:
            return None
        v = sr.get(str(k))
        if v is None:
            v = sr.get('*')
        if v is None:
            return None
        n = max(1, min(avail, int(v)))
        if n < avail:
            self.fired('short_read')
        return n

    # -- connect phase
    def getaddrinfo(self, host, port, family=0, type_=0, *a):
        self.conn_index += 1
        by_host = self.scen.get('conns_by_host')
        if by_host is not None:
            # several WebSocket objects share this world: each host has its
            # own list of connection specs
            lst = self.host_specs.setdefault(host, [
                ConnSpec(c) for c in by_host.get(host, [])])
            k = self.host_count.get(host, 0)
            self.host_count[host] = k + 1
            spec = lst[k] if k < len(lst) else ConnSpec({'resolve': 'gaierror'})
            self.conn_specs.append(spec)
            self.conn_index = len(self.conn_specs) - 1
        if self.conn_index >= len(self.conn_specs):
            # scenario ran out of connection specs: behave like the last one
            self.conn_specs.append(ConnSpec({'resolve': 'gaierror'}))
        conn = self.cur_conn = self.conn_specs[self.conn_index]
        conn.host = host
        conn.port = port
        self.op('getaddrinfo', self.conn_index, str(host), int(port))
        self._addr_iter = 0
        if conn.resolve == 'gaierror':
            self.fired('gaierror')
            raise _real_socket.gaierror(-2, 'Name or service not known')
        if conn.resolve == 'exc':
            self.fired('resolve_exc')
            raise InjectedError('injected failure in getaddrinfo')
        if conn.resolve == 'empty':
            self.fired('empty_addrinfo')
            return []
        res = []
        for i, a in enumerate(conn.addrs):
            fam = _real_socket.AF_INET6 if a.get('family') == 'inet6' \
                else _real_socket.AF_INET
            # the same name resolves to the same addresses every time
            sa = ('10.0.0.%d' % (i + 1), port)
            res.append((fam, _real_socket.SOCK_STREAM, 6, '', sa))
        return res

    def make_socket(self, family, type_, proto):
        conn = self.cur_conn
        i = self._addr_iter
        self._addr_iter += 1
        spec = conn.addrs[i] if i < len(conn.addrs) else {}
        self.op('socket', self.conn_index, i)
        if spec.get('socket_fail'):
            self.fired('socket_fail')
            raise OSError(errno.EAFNOSUPPORT, 'Address family not supported')
        st = SockState(self, len(self.socks),
                       self.scen.get('fd_base', 1000) + len(self.socks), family)
        st.conn = conn
        st.addr_index = i
        st.addr_spec = spec
        st.role = 'proxy' if conn.proxy is not None else 'target'
        self.socks.append(st)
        self.by_fd[st.fd] = st
        conn.used_sockets.append(st.index)
        return FakeSocket(st)

    def connect(self, st, sa):
        spec = st.addr_spec
        st.addr = sa
        # what an address does is a property of the address, not of the
        # order in which the client creates its sockets
        try:
            k = int(str(sa[0]).rsplit('.', 1)[1]) - 1
        except (ValueError, IndexError):
            k = None
        if k is not None and str(sa[0]).startswith('10.0.0.') and \
                0 <= k < len(st.conn.addrs) and k != st.addr_index:
            spec = st.conn.addrs[k]
            st.addr_index = k
            st.addr_spec = spec
        how = spec.get('connect', 'ok')
        if how == 'refused':
            self.fired('connect_refused')
            raise OSError(errno.ECONNREFUSED, 'Connection refused')
        if how == 'timeout':
            self.fired('connect_timeout')
            self.sleep((st.timeout or 30) * 1e6)
            raise _real_socket.timeout('timed out')
        if how == 'unreach':
            self.fired('connect_unreach')
            raise OSError(errno.ENETUNREACH, 'Network is unreachable')
        if how == 'exc':
            self.fired('connect_exc')
            raise InjectedError('injected failure in connect')
        if st.tls and st.conn.tls_fail:
            self.fired('tls_handshake_fail')
            raise _real_ssl.SSLError(1, '[SSL] handshake failure (injected)')
        st.connected = True
        self.start_peer(st)

    def start_peer(self, st):
        conn = st.conn
        if conn.proxy is not None:
            steps = list(conn.proxy.get('steps') or [])
            if conn.proxy.get('then_server', True):
                steps = steps + list(conn.server)
            st.server = ServerProc(self, st, steps, conn.react, n_http=2)
        else:
            st.server = ServerProc(self, st, list(conn.server), conn.react)

    def wrap_socket(self, sock, server_hostname=None):
        st = sock._st
        self.op('wrap', st.index, str(server_hostname))
        if st.connected and st.conn.tls_fail:
            self.fired('tls_handshake_fail')
            raise _real_ssl.SSLError(1, '[SSL] handshake failure (injected)')
        st.tls = True
        st.sni = server_hostname
        return sock

    def unregister_fd(self, fd):
        self.by_fd.pop(fd, None)

    # -- randomness
    def urandom(self, n):
        self._urandom_ctr += 1
        base = self.scen.get('urandom_seed', 'k')
        import hashlib
        out = b''
        i = 0
        while len(out) < n:
            out += hashlib.sha256(('%s/%d/%d' % (base, self._urandom_ctr, i)
                                   ).encode()).digest()
            i += 1
        out = out[:n]
        self.urandom_log.append((self.next_seq(), self.conn_index, out))
        return out

    def masking_key(self):
        self._mask_ctr += 1
        mode = self.mask_mode
        if mode == 'zero':
            return b'\x00\x00\x00\x00'
        if mode == 'ones':
            return b'\xff\xff\xff\xff'
        if isinstance(mode, list):
            return bytes.fromhex(mode[(self._mask_ctr - 1) % len(mode)])
        import hashlib
        return hashlib.sha256(('m/%s/%d' % (self.scen.get('urandom_seed', 'k'),
                                            self._mask_ctr)).encode()
                              ).digest()[:4]

    def random(self):
        i = self._rand_ctr
        self._rand_ctr += 1
        if self.rand_values:
            return self.rand_values[i % len(self.rand_values)]
        return 0.5


# ---------------------------------------------------------------------------
# namespaces installed over lomond's module-level names

class _SocketNS(object):
    error = OSError
    timeout = _real_socket.timeout
    gaierror = _real_socket.gaierror
    herror = _real_socket.herror
    AF_UNSPEC = _real_socket.AF_UNSPEC
    AF_INET = _real_socket.AF_INET
    AF_INET6 = _real_socket.AF_INET6
    SOCK_STREAM = _real_socket.SOCK_STREAM
    IPPROTO_TCP = _real_socket.IPPROTO_TCP
    TCP_NODELAY = _real_socket.TCP_NODELAY
    SHUT_RDWR = _real_socket.SHUT_RDWR
    SHUT_WR = _real_socket.SHUT_WR
    SHUT_RD = _real_socket.SHUT_RD
    SOL_SOCKET = _real_socket.SOL_SOCKET
    SO_RCVLOWAT = _real_socket.SO_RCVLOWAT
    SO_KEEPALIVE = _real_socket.SO_KEEPALIVE
    SO_LINGER = _real_socket.SO_LINGER

    @staticmethod
    def getaddrinfo(*a):
        return CURRENT.getaddrinfo(*a)

    @staticmethod
    def socket(*a):
        return CURRENT.make_socket(*a)


class _SSLContext(object):
    def __init__(self, protocol=None):
        self.protocol = protocol

    def wrap_socket(self, sock, server_hostname=None, **kw):
        return CURRENT.wrap_socket(sock, server_hostname)


class _SSLNS(object):
    SSLContext = _SSLContext
    SSLError = _real_ssl.SSLError
    HAS_SNI = True
    PROTOCOL_TLS = getattr(_real_ssl, 'PROTOCOL_TLS', 2)
    PROTOCOL_SSLv23 = getattr(_real_ssl, 'PROTOCOL_SSLv23', 2)

    @staticmethod
    def wrap_socket(sock, **kw):
        return CURRENT.wrap_socket(sock, None)


class _TimeNS(object):
    @staticmethod
    def time():
        return CURRENT.time()

    @staticmethod
    def sleep(s):
        CURRENT.sleep(s * 1e6)


class _SelectNS(object):
    POLLIN, POLLPRI, POLLERR, POLLHUP = 1, 2, 8, 16
    EPOLLIN, EPOLLPRI, EPOLLERR, EPOLLHUP = 1, 2, 8, 16
    EPOLLRDHUP, EPOLLET, EPOLLONESHOT = 0x2000, 1 << 31, 1 << 30
    error = OSError

    @staticmethod
    def poll():
        return FakePoll(CURRENT)

    @staticmethod
    def epoll(*a, **kw):
        return FakeEpoll(CURRENT)


class _Environ(object):
    def get(self, k, d=None):
        return CURRENT.env.get(k, d)

    def __getitem__(self, k):
        return CURRENT.env[k]

    def __contains__(self, k):
        return k in CURRENT.env


class _OsNS(object):
    environ = _Environ()

    @staticmethod
    def urandom(n):
        return CURRENT.urandom(n)


def _masking_key():
    return CURRENT.masking_key()


class SoloLock(object):
    """threading.Lock for the single-threaded engine: with one thread, an
    acquire of a held lock can never succeed - report it instead of blocking
    the worker process for ever."""

    def __init__(self):
        self._held = False

    def acquire(self, blocking=True, timeout=-1):
        if self._held:
            if not blocking:
                return False
            raise SimHang('deadlock: the only thread acquires a lock it '
                          'already holds')
        self._held = True
        return True

    def release(self):
        if not self._held:
            raise RuntimeError('release unlocked lock')
        self._held = False

    def locked(self):
        return self._held

    def __enter__(self):
        self.acquire()
        return self

    def __exit__(self, *a):
        self.release()


import threading as _REAL_THREADING     # noqa: E402 (the real module)


class LazyLock(object):
    """A lock created while no simulation is running (at import time, in a
    class body, as a default argument ...): it may live for the whole
    process, so what it IS is decided per run, at the first use in that run:
    the scheduler's lock under ThreadSim, the deadlock-detecting SoloLock
    under NetSim, a real lock outside."""

    def __init__(self, reentrant=False):
        self.reentrant = reentrant
        self._real = _REAL_THREADING.RLock() if reentrant \
            else _REAL_THREADING.Lock()
        self._world = None
        self._impl = None

    def _get(self):
        w = CURRENT
        if w is None:
            return self._real
        if self._world is None or self._world() is not w:
            self._world = weakref.ref(w)
            if w.sched is not None:
                self._impl = w.sched.make_lock(self.reentrant)
            elif self.reentrant:
                self._impl = _REAL_THREADING.RLock()
            else:
                self._impl = SoloLock()
            w.probe('process_wide_lock_used')
        return self._impl

    def acquire(self, *a, **kw):
        return self._get().acquire(*a, **kw)

    def release(self):
        return self._get().release()

    def locked(self):
        return self._get().locked()

    def __enter__(self):
        self._get().acquire()
        return self

    def __exit__(self, *a):
        self._get().release()


class SimEvent(object):
    """threading.Event created by lomond itself (persist() without an exit
    event): wait(timeout) passes simulated, not real, time."""

    def __init__(self):
        self._flag = False

    def set(self):
        self._flag = True

    def clear(self):
        self._flag = False

    def is_set(self):
        return self._flag

    isSet = is_set

    def wait(self, timeout=None):
        if self._flag:
            return True
        w = CURRENT
        if w is None:
            return self._flag
        if timeout is None:
            raise SimHang('waits for ever on an Event that nobody can set')
        w.probe('internal_event_wait')
        w.n_event_waits = getattr(w, 'n_event_waits', 0) + 1
        if w.n_event_waits > 5000:
            raise SimHang('endless sequence of timed waits on an internal '
                          'Event (persist() without a reachable exit event)')
        w.sleep(timeout * 1e6)
        return self._flag


class _ThreadingNS(object):
    """lomond.session.threading: Lock() is the simulator's lock while a
    ThreadSim scheduler is active, a real lock otherwise."""
    import threading as _real

    @staticmethod
    def Lock():
        w = CURRENT
        if w is not None and w.sched is not None:
            return w.sched.make_lock()
        if w is not None:
            return SoloLock()
        return LazyLock()

    @staticmethod
    def RLock():
        w = CURRENT
        if w is not None and w.sched is not None:
            return w.sched.make_lock(reentrant=True)
        if w is not None:
            return _ThreadingNS._real.RLock()
        return LazyLock(reentrant=True)

    Event = SimEvent
    Thread = _real.Thread
    Condition = _real.Condition
    Semaphore = _real.Semaphore
    local = _real.local
    current_thread = staticmethod(_real.current_thread)
    get_ident = staticmethod(_real.get_ident)


def threading_proxy():
    """A stand-in for the `threading` module, put into sys.modules while the
    lomond package is imported (bootstrap.setup): locks lomond creates at
    import time (class bodies, module globals, default arguments) become
    LazyLocks; everything else is the real module."""
    import sys
    import types
    m = types.ModuleType('threading')
    m.__dict__.update(_REAL_THREADING.__dict__)

    def _from_lomond():
        f = sys._getframe(2)
        return f.f_globals.get('__name__', '').split('.')[0] == 'lomond'

    def Lock():
        return _ThreadingNS.Lock() if _from_lomond() \
            else _REAL_THREADING.Lock()

    def RLock():
        return _ThreadingNS.RLock() if _from_lomond() \
            else _REAL_THREADING.RLock()
    m.Lock = Lock
    m.RLock = RLock
    m._verif_proxy = True
    return m


def _random():
    return CURRENT.random()


_installed = False


def install():
    """Route lomond's module-level seams to the current World (once per
    process).  No lomond source is modified."""
    global _installed
    if _installed:
        return
    import lomond.session
    import lomond.selectors
    import lomond.events
    import lomond.websocket
    import lomond.frame
    import lomond.persist
    lomond.session.socket = _SocketNS
    lomond.session.ssl = _SSLNS
    lomond.session.HAS_SNI = True
    lomond.session.time = _TimeNS
    lomond.session.threading = _ThreadingNS
    lomond.events.time = _TimeNS
    lomond.selectors.select = _SelectNS
    # the selector class the tree itself picks on this platform (decided at
    # import time with the real select module): PollSelector on Linux.  A
    # tree that makes another one the default gets that one, over the
    # simulated select.poll / select.epoll
    _base = lomond.selectors.PlatformSelector
    if _base in (getattr(lomond.selectors, 'SelectSelector', None),
                 getattr(lomond.selectors, 'KQueueSelector', None)) or \
            not isinstance(_base, type):
        _base = lomond.selectors.PollSelector

    class TrackedPollSelector(_base):
        """The real selector class; only counts construction and close()."""

        def __init__(self, socket):
            self._world = CURRENT
            CURRENT.sel_created += 1
            super(TrackedPollSelector, self).__init__(socket)

        def close(self):
            self._world.sel_closed += 1
            return super(TrackedPollSelector, self).close()

    lomond.session.WebsocketSession._selector_cls = TrackedPollSelector
    lomond.websocket.os = _OsNS
    if hasattr(lomond.websocket, 'threading'):
        lomond.websocket.threading = _ThreadingNS
    lomond.frame.make_masking_key = _masking_key
    lomond.persist.random = _random
    # any other lomond module that creates locks gets the simulator's too
    # (a real lock held by a parked thread would block the worker for real)
    import pkgutil
    import importlib
    import threading as _rt
    for mi in pkgutil.iter_modules(lomond.__path__):
        try:
            m = importlib.import_module('lomond.' + mi.name)
        except Exception:
            continue
        if getattr(m, 'threading', None) is _rt or getattr(
                getattr(m, 'threading', None), '_verif_proxy', False):
            m.threading = _ThreadingNS
        if getattr(m, 'Lock', None) is _rt.Lock:
            m.Lock = _ThreadingNS.Lock
        if getattr(m, 'RLock', None) is _rt.RLock:
            m.RLock = _ThreadingNS.RLock
    _installed = True


def set_current(world):
    global CURRENT
    CURRENT = world
