"""NetSim: run one scenario (plain data) against the real lomond code in the
simulated world and return a Trace.  run() is a pure function of the scenario
and the code under test.
"""
import gc
import hashlib
import json

from . import world as W
from . import peer


class EvRec(object):
    __slots__ = ('seq', 't', 'name', 'obj', 'snap', 'index', 'wire_len',
                 'conn', 'open_socks')

    def __repr__(self):
        return '<ev %d %s t=%d>' % (self.index, self.name, self.t)


class CallRec(object):
    __slots__ = ('seq', 't', 'op', 'spec', 'outcome', 'exc', 'exc_is_wse',
                 'wrote', 'n_sendall', 'at_event', 'sock', 'args_intact',
                 'wire_before', 'k0')

    def summary(self):
        return {'op': self.op, 'outcome': self.outcome, 'exc': self.exc,
                'wrote': self.wrote, 'at_event': self.at_event}


class Trace(object):
    def __init__(self):
        self.events = []
        self.calls = []
        self.escaped = None         # (type name, str) of an exception leaving next()
        self.hang = None
        self.after_stop = []        # outcomes of next() after the generator ended
        self.abandoned = None       # (event index, how)
        self.world = None
        self.ws = None
        self.finished = False       # generator raised StopIteration
        self.backoff_waits = []
        self.connect_args = []
        self.release = None

    # ---- helpers used by oracles
    @property
    def socks(self):
        return self.world.socks

    def names(self, drop=('poll',)):
        return [e.name for e in self.events if e.name not in drop]

    def out_bytes(self, i=-1):
        return bytes(self.world.socks[i].out_bytes) if self.world.socks else b''

    def digest(self):
        h = hashlib.sha256()
        for e in self.events:
            h.update(repr((e.seq, e.t, e.name, e.snap)).encode())
        for c in self.calls:
            h.update(repr((c.seq, c.t, c.op, c.outcome, c.exc, c.wrote)).encode())
        for o in self.world.ops:
            h.update(repr(o).encode())
        for s in self.world.socks:
            h.update(bytes(s.out_bytes))
            h.update(repr((s.closed, s.delivered_total, s.avail_total)).encode())
        h.update(repr((self.escaped, self.hang, self.after_stop,
                       self.abandoned, self.finished)).encode())
        return h.hexdigest()


def snapshot(event):
    """Normalised, immutable copy of an event's payload fields."""
    n = event.name
    if n == 'text':
        return ('text', type(event.text).__name__, event.text)
    if n == 'binary':
        return ('binary', type(event.data).__name__, bytes(event.data))
    if n in ('ping', 'pong'):
        return (n, type(event.data).__name__, bytes(event.data))
    if n in ('closing', 'closed'):
        return (n, event.code, event.reason)
    if n == 'disconnected':
        return (n, bool(event.graceful))
    if n == 'ready':
        exts = event.extensions
        return (n, event.protocol,
                tuple(sorted(exts)) if exts is not None else None)
    if n == 'connected':
        return (n, event.url, event.proxy)
    if n == 'connecting':
        return (n, event.url)
    if n == 'protocol_error':
        # the text and the flag are what the application sees of it
        return (n, str(getattr(event, 'error', '')),
                bool(getattr(event, 'critical', False)))
    if n == 'back_off':
        return (n, event.delay)
    if n == 'rejected':
        return (n,)
    return (n,)


class _Skipped(Exception):
    pass


class _AppError(Exception):
    """Raised by the application handler on purpose (abandonment by raise)."""


class App(object):
    """Application policy: a list of rules {when, do}.

    when: {'name': n, 'nth': k}  k-th (0-based) event of that name, or
          {'index': i}           i-th event overall, or
          {'name': n}            every event of that name
    do:   list of ops, see _do().
    """

    def __init__(self, rules, trace, world):
        self.rules = rules or []
        self.trace = trace
        self.world = world
        self.counts = {}
        self.attempt = -1
        self.ws = None
        self.sock_fn = None

    def observe(self, ev):
        """Keep the (name, nth) / attempt counters in step for an event the
        application does not react to."""
        if ev.name == 'connecting':
            self.counts = {}
            self.attempt += 1
        self.counts[ev.name] = self.counts.get(ev.name, 0) + 1

    def react(self, ev):
        if ev.name == 'connecting':
            # (name, nth) rules count per connection attempt
            self.counts = {}
            self.attempt += 1
        nth = self.counts.get(ev.name, 0)
        self.counts[ev.name] = nth + 1
        for rule in self.rules:
            wh = rule['when']
            if 'attempt' in wh and wh['attempt'] != self.attempt:
                continue
            if 'index' in wh:
                if wh['index'] != ev.index:
                    continue
            else:
                if wh.get('name') != ev.name:
                    continue
                if 'nth' in wh and wh['nth'] != nth:
                    continue
            for op in rule['do']:
                r = self._do(op, ev)
                if r is not None:
                    return r
        return None

    def _do(self, op, ev):
        kind = op['op']
        w = self.world
        ws = self.ws
        if kind == 'sleep':
            w.sleep(op['us'])
            return None
        if kind == 'abandon':
            return ('abandon', op.get('how', 'break'))
        if kind == 'set_attr':
            # a public attribute of the WebSocket changed between connects
            setattr(ws, op['name'], op['value'])
            return None
        if kind == 'release_old':
            # finalise the generators of earlier, abandoned connections now
            olds = getattr(self, 'olds', None) or []
            while len(olds) > 1:
                g = olds.pop(0)
                g.close()
                self.world.probe('old_generator_released_late')
            return None
        rec = CallRec()
        rec.seq = w.next_seq()
        rec.t = w.now
        rec.op = kind
        rec.spec = op
        rec.at_event = ev.index if ev is not None else None
        sock = self.sock_fn() if self.sock_fn is not None else (
            w.socks[-1] if w.socks else None)
        rec.sock = sock.index if sock is not None else None
        before = len(sock.out_bytes) if sock is not None else 0
        nsend = sock.n_sendall if sock is not None else 0
        rec.wire_before = before
        rec.k0 = nsend
        rec.args_intact = True
        try:
            self._call(ws, op, rec)
            rec.outcome = 'ok'
            rec.exc = None
            rec.exc_is_wse = False
        except W.SimHang:
            raise
        except _Skipped:
            return None
        except Exception as e:
            from lomond import errors
            rec.outcome = 'raised'
            rec.exc = type(e).__name__
            rec.exc_is_wse = isinstance(e, errors.WebSocketError)
        sock2 = w.socks[rec.sock] if rec.sock is not None else None
        rec.wrote = (len(sock2.out_bytes) - before) if sock2 is not None else 0
        rec.n_sendall = (sock2.n_sendall - nsend) if sock2 is not None else 0
        self.trace.calls.append(rec)
        return None

    def _call(self, ws, op, rec):
        kind = op['op']
        kw = {}
        if 'compress' in op:
            kw['compress'] = op['compress']
        if kind == 'send_text':
            ws.send_text(op['text'], **kw)
        elif kind == 'send_binary':
            if 'fill' in op:
                # compact form for payloads of megabytes: [head hex, n, byte]
                h, n, b = op['fill']
                data = bytes.fromhex(h) + bytes([b]) * n
            else:
                data = bytes.fromhex(op['hex'])
            ws.send_binary(data, **kw)
        elif kind == 'send_ping':
            if 'hex' in op:
                ws.send_ping(bytes.fromhex(op['hex']))
            else:
                ws.send_ping()
        elif kind == 'send_pong':
            ws.send_pong(bytes.fromhex(op['hex']))
        elif kind == 'send_json':
            obj = json.loads(op['json'])
            copy = json.loads(op['json'])
            if op.get('kwargs'):
                ws.send_json(**obj)
            else:
                ws.send_json(obj)
            rec.args_intact = (obj == copy)
        elif kind == 'close_if_closing':
            # `if shutting_down: ws.close()` in a handler: repeats close()
            # only once a close has been started
            if ws.is_closing and not ws.is_closed:
                ws.close(op.get('code', 1000), op.get('reason', ''))
            else:
                raise _Skipped()
        elif kind == 'close':
            args = []
            if 'code' in op:
                args.append(op['code'])
                if 'reason' in op:
                    args.append(op['reason'])
                elif 'reason_hex' in op:
                    args.append(bytes.fromhex(op['reason_hex']))
            elif 'reason' in op:
                kw['reason'] = op['reason']
            elif 'reason_hex' in op:
                kw['reason'] = bytes.fromhex(op['reason_hex'])
            ws.close(*args, **kw)
        elif kind == 'bad':
            self._bad(ws, op, rec)
        elif kind == 'send_binary_mutable':
            # caller keeps a bytes object and checks it afterwards
            data = bytes.fromhex(op['hex'])
            keep = bytes(bytearray(data))
            ws.send_binary(data, **kw)
            rec.args_intact = (data == keep)
        else:
            raise ValueError('unknown app op %r' % kind)

    def _bad(self, ws, op, rec):
        v = op['variant']
        if v == 'text_bytes':
            ws.send_text(b'bytes not text')
        elif v == 'binary_str':
            ws.send_binary(u'text not bytes')
        elif v == 'binary_bytearray':
            ba = bytearray(b'mutable')
            keep = bytes(ba)
            try:
                ws.send_binary(ba)
            finally:
                rec.args_intact = (bytes(ba) == keep)
        elif v == 'ping_str':
            ws.send_ping(u'text')
        elif v == 'pong_str':
            ws.send_pong(u'text')
        elif v == 'ping_long':
            ws.send_ping(b'p' * op.get('n', 126))
        elif v == 'pong_long':
            ws.send_pong(b'q' * op.get('n', 126))
        elif v == 'json_unserialisable':
            ws.send_json({'x': object()})
        elif v == 'json_both':
            ws.send_json({'a': 1}, b=2)
        elif v == 'text_none':
            ws.send_text(None)
        elif v == 'binary_none':
            ws.send_binary(None)
        elif v == 'text_int':
            ws.send_text(7)
        elif v == 'text_lone_surrogate':
            # not encodable as UTF-8: cannot be sent (UnicodeEncodeError is
            # a ValueError)
            ws.send_text(u'half of a pair \ud83d')
        elif v == 'text_surrogate_in_json':
            ws.send_json({'k': u'\udc00 tail'}, ensure_ascii=False) \
                if False else ws.send_text(u'\udc00 tail')
        else:
            raise ValueError(v)


class ExitEvent(object):
    """Virtual threading.Event for persist(): wait() advances the clock."""

    def __init__(self, world, trace, stop_at):
        self.w = world
        self.trace = trace
        self.stop_at = stop_at
        self.n = 0

    def wait(self, timeout=None):
        k = self.n
        self.n += 1
        self.trace.backoff_waits.append((self.w.next_seq(), self.w.now,
                                         timeout))
        hit = self.stop_at is not None and k >= self.stop_at
        if not hit and timeout is not None:
            self.w.sleep(timeout * 1e6)
        return hit

    def is_set(self):
        return self.stop_at is not None and self.n > self.stop_at

    def set(self):
        self.stop_at = -1


class FalsyExitEvent(ExitEvent):
    """An exit event whose truth value is its state (false while unset, an
    Event subclass many code bases have): persist() must use the object it
    was given, whatever bool() says about it."""

    def __bool__(self):
        return self.is_set()

    __nonzero__ = __bool__

    def __len__(self):
        return 1 if self.is_set() else 0


def _make_ws(scen):
    from lomond.websocket import WebSocket
    wsa = scen.get('ws') or {}
    kw = {}
    if 'proxies' in wsa:
        kw['proxies'] = wsa['proxies']
    if wsa.get('protocols') is not None:
        kw['protocols'] = wsa['protocols']
    if wsa.get('agent') is not None:
        kw['agent'] = wsa['agent']
    if 'compress' in wsa:
        kw['compress'] = wsa['compress']
    ws = WebSocket(scen.get('url', 'ws://example.test/'), **kw)
    for h, v in wsa.get('headers') or []:
        ws.add_header(h.encode('latin-1'), v.encode('latin-1'))
    return ws


def _connect_kwargs(scen):
    c = dict(scen.get('connect') or {})
    return c


def _consume(trace, make_gen, app, max_events, keep):
    """The idiomatic consumer loop, in its own frame.  Unless `keep`, the
    generator is referenced only by the for statement, exactly like
    `for event in ws.connect(...)`, so leaving the loop releases it."""
    w = trace.world
    gen = make_gen() if keep else None
    idx = len(trace.events)
    n = 0
    for event in (gen if keep else make_gen()):
        rec = EvRec()
        rec.seq = w.next_seq()
        rec.t = w.now
        rec.name = event.name
        rec.obj = event
        rec.snap = snapshot(event)
        rec.index = idx
        rec.conn = w.conn_index
        rec.wire_len = len(w.socks[-1].out_bytes) if w.socks else 0
        rec.open_socks = sum(1 for s_ in w.socks if not s_.closed)
        trace.events.append(rec)
        idx += 1
        n += 1
        if n > max_events:
            raise W.SimHang('event budget exhausted')
        r = app.react(rec)
        if r is not None and r[0] == 'abandon':
            how = r[1]
            trace.abandoned = (rec.index, how, rec.name)
            if how == 'break':
                return None
            if how in ('raise', 'with', 'with_hold'):
                raise _AppError('handler failed')
            if how == 'close':
                # explicit generator.close(): needs a reference by nature
                raise _CloseRequest()
    trace.finished = True
    return gen


class _CloseRequest(Exception):
    pass


def _consume_closing(trace, make_gen, app, max_events):
    """Variant for the 'close' mechanism: the consumer holds the generator
    in a local, calls .close() on it and returns."""
    w = trace.world
    gen = make_gen()
    idx = len(trace.events)
    for event in gen:
        rec = EvRec()
        rec.seq = w.next_seq()
        rec.t = w.now
        rec.name = event.name
        rec.obj = event
        rec.snap = snapshot(event)
        rec.index = idx
        rec.conn = w.conn_index
        rec.wire_len = len(w.socks[-1].out_bytes) if w.socks else 0
        rec.open_socks = sum(1 for s_ in w.socks if not s_.closed)
        trace.events.append(rec)
        idx += 1
        r = app.react(rec)
        if r is not None and r[0] == 'abandon':
            trace.abandoned = (rec.index, r[1], rec.name)
            gen.close()
            return
    trace.finished = True


def _iterate(trace, make_gen, app, max_events, ws, mech, observe=False):
    gen = None
    try:
        if mech == 'close':
            _consume_closing(trace, make_gen, app, max_events)
        elif mech == 'with':
            with ws:
                _consume(trace, make_gen, app, max_events, False)
        elif mech == 'with_hold':
            # the generator object outlives the with-block (it is kept in a
            # list): only WebSocket.__exit__ can release the socket now
            keep = []

            def make_and_keep():
                g = make_gen()
                keep.append(g)
                return g
            try:
                with ws:
                    _consume(trace, make_and_keep, app, max_events, False)
            finally:
                trace.kept_generators = keep
        elif mech is not None:
            _consume(trace, make_gen, app, max_events, False)
        else:
            gen = _consume(trace, make_gen, app, max_events, True)
    except W.SimHang as e:
        trace.hang = str(e)
    except _AppError:
        pass
    except Exception as e:
        trace.escaped = (type(e).__name__, str(e)[:200])
    if trace.finished and gen is not None:
        # the iterator must stay finished
        for _ in range(2):
            try:
                ev = next(gen)
                trace.after_stop.append('yielded:' + ev.name)
            except StopIteration:
                trace.after_stop.append('stop')
            except Exception as e:
                trace.after_stop.append('raised:' + type(e).__name__)
    gen = None
    if trace.abandoned is not None or observe:
        observe_release(trace)
    trace.kept_generators = None


def observe_release(trace):
    """After abandonment: the WebSocket object is still alive (trace.ws);
    collect garbage and record what is still open / reachable."""
    gc.collect()
    w = trace.world
    rel = []
    for st in w.socks:
        alive = st.ref is not None and st.ref() is not None
        rel.append({'sock': st.index, 'closed': st.closed,
                    'by_gc': st.closed_by_gc, 'reachable': alive,
                    'registered': st.fd in w.by_fd and not st.closed})
    polls_alive = sum(1 for r in w.polls if r() is not None)
    trace.release = {'socks': rel, 'polls_alive': polls_alive,
                     'polls_created': w.n_polls_created,
                     'selectors_created': w.sel_created,
                     'selectors_closed': w.sel_closed}


_RUNS = [0]


class _ThreadedGen(object):
    """Drives a generator from a helper thread, one next() at a time (the
    caller waits for each): the event loop then runs in another thread than
    the one that owns the WebSocket / the with-block, as in applications that
    iterate in a worker thread.  Still strictly sequential."""

    def __init__(self, gen):
        import queue
        import threading
        self._gen = gen
        self._req = queue.Queue()
        self._res = queue.Queue()
        self._thread = threading.Thread(target=self._work, daemon=True)
        self._thread.start()

    def _work(self):
        while True:
            what = self._req.get()
            if what == 'stop':
                return
            try:
                if what == 'next':
                    self._res.put(('value', next(self._gen)))
                else:
                    self._gen.close()
                    self._res.put(('closed', None))
            except StopIteration:
                self._res.put(('stop', None))
            except BaseException as e:      # noqa
                self._res.put(('raise', e))

    def __iter__(self):
        return self

    def __next__(self):
        self._req.put('next')
        kind, val = self._res.get()
        if kind == 'value':
            return val
        if kind == 'stop':
            self._req.put('stop')
            raise StopIteration
        raise val

    def close(self):
        self._req.put('close')
        kind, val = self._res.get()
        self._req.put('stop')
        if kind == 'raise':
            raise val

    def __del__(self):
        try:
            self._req.put('stop')
        except Exception:
            pass


class _Watchdog(object):
    """A loop inside the library that never calls into the simulated world
    (no socket, clock or lock operation) cannot exhaust any simulated budget:
    a wall-clock alarm (generous: 30 s for runs that take milliseconds to
    seconds) turns it into a reported hang instead of a dead worker."""

    def __init__(self, seconds=30):
        self.seconds = seconds
        self.old = None

    def _fire(self, signum, frame):
        raise W.SimHang('no simulated operation for %d s of real time: an '
                        'endless loop inside the library' % self.seconds)

    def __enter__(self):
        import signal
        import threading
        if threading.current_thread() is threading.main_thread():
            self.old = signal.signal(signal.SIGALRM, self._fire)
            signal.alarm(self.seconds)
        return self

    def __exit__(self, *a):
        import signal
        if self.old is not None:
            signal.alarm(0)
            signal.signal(signal.SIGALRM, self.old)


def run(scen):
    """Execute one scenario; returns a Trace."""
    with _Watchdog():
        return _run(scen)


def _run(scen):
    W.install()
    # gc is disabled while a simulation runs (Parser <-> coroutine cycles
    # have __del__); collect between runs so 64 KiB session buffers held by
    # cyclic garbage do not pile up.
    _RUNS[0] += 1
    if _RUNS[0] % 64 == 0:
        W.set_current(None)
        gc.collect()
    w = W.World(scen)
    W.set_current(w)
    trace = Trace()
    trace.world = w
    # other WebSocket objects of the same process (constructed, given their
    # own custom headers, never connected): nothing of theirs may show up in
    # the connection under test
    trace.others = [_make_ws(o) for o in scen.get('other_objects') or []]
    ws = _make_ws(scen)
    trace.ws = ws
    app = App(scen.get('app'), trace, w)
    app.ws = ws
    ckw = _connect_kwargs(scen)
    persist_cfg = scen.get('persist')
    if persist_cfg is not None:
        from lomond.persist import persist
        pk = dict(persist_cfg)
        stop_at = pk.pop('stop_at', None)
        tee = pk.pop('tee', True)
        exit_event = (FalsyExitEvent if pk.pop('falsy_event', False)
                      else ExitEvent)(w, trace, stop_at)
        if tee:
            _tee_connect(ws, trace)

        positional = pk.pop('positional', False)

        def make_gen():
            if positional:
                # the documented order, every argument by position
                return persist(ws, pk.get('poll', 5), pk.get('min_wait', 5),
                               pk.get('max_wait', 30), pk.get('ping_rate', 30),
                               pk.get('ping_timeout'), exit_event)
            return persist(ws, exit_event=exit_event, **pk)
    else:
        def make_gen():
            return ws.connect(**ckw)
    if scen.get('iterate_in_thread'):
        plain_make_gen = make_gen

        def make_gen():
            return _ThreadedGen(plain_make_gen())
    if scen.get('pre_with_failure'):
        # an earlier with-block on the object that was left by an exception
        # before anything was connected (a failed set-up step)
        try:
            with ws:
                raise _AppError('set-up failed')
        except _AppError:
            pass
    max_events = scen.get('max_events', 20000)
    mech = None
    for rule in (scen.get('app') or []):
        for op in rule['do']:
            if op['op'] == 'abandon':
                mech = op.get('how', 'break')
    n_connects = scen.get('n_connects', 1) if persist_cfg is None else 1
    held = [None]       # `events = ws.connect(...)` variable of the consumer
    olds = []           # generators kept by the consumer (mech 'hold')
    app.olds = olds
    for i in range(n_connects):
        if i:
            trace.events.append(_sep(w, len(trace.events)))
        if mech == 'hold':
            # the consumer keeps every abandoned generator (a list of old
            # `events` objects, a traceback, a debugger ...) and lets go of
            # them later: application op 'release_old', or the end of the run
            def make_and_keep():
                new = make_gen()
                olds.append(new)
                return new
            _iterate_rebind(trace, make_and_keep, app, max_events)
        elif mech == 'rebind':
            # events = ws.connect(...): the new generator exists before the
            # old (abandoned, still suspended) one is released
            def make_and_rebind():
                new = make_gen()
                held[0] = new
                return new
            _iterate_rebind(trace, make_and_rebind, app, max_events)
        else:
            _iterate(trace, make_gen, app, max_events, ws, mech,
                     bool(scen.get('observe_release')))
        if trace.hang or trace.escaped:
            break
    held[0] = None
    del olds[:]
    if mech in ('rebind', 'hold') and scen.get('observe_release'):
        observe_release(trace)
    return trace


def _iterate_rebind(trace, make_gen, app, max_events):
    w = trace.world
    try:
        gen = make_gen()        # the caller's variable now holds only `gen`
        idx = len(trace.events)
        for event in gen:
            rec = EvRec()
            rec.seq = w.next_seq()
            rec.t = w.now
            rec.name = event.name
            rec.obj = event
            rec.snap = snapshot(event)
            rec.index = idx
            rec.conn = w.conn_index
            rec.wire_len = len(w.socks[-1].out_bytes) if w.socks else 0
            rec.open_socks = sum(1 for s_ in w.socks if not s_.closed)
            trace.events.append(rec)
            idx += 1
            r = app.react(rec)
            if r is not None and r[0] == 'abandon':
                trace.abandoned = (rec.index, r[1], rec.name)
                return          # stop iterating; `held` keeps it suspended
        trace.finished = True
    except W.SimHang as e:
        trace.hang = str(e)
    except Exception as e:
        trace.escaped = (type(e).__name__, str(e)[:200])


def _sep(w, idx):
    rec = EvRec()
    rec.seq = w.next_seq()
    rec.t = w.now
    rec.name = '--reconnect--'
    rec.obj = None
    rec.snap = ('--reconnect--',)
    rec.index = idx
    rec.conn = w.conn_index
    rec.wire_len = 0
    rec.open_socks = 0
    return rec


def _tee_connect(ws, trace):
    """Record what persist() passes to connect() and what connect() yields,
    at the connect boundary (instance attribute; the class is untouched)."""
    real_connect = ws.connect

    def connect(*a, **kw):
        inner = []
        trace.connect_args.append((a, dict(kw), inner))

        def gen():
            for ev in real_connect(*a, **kw):
                inner.append(ev)
                yield ev
        return gen()
    ws.connect = connect


def run_multi(scen):
    """Several WebSocket objects alive at the same time in one world, their
    event loops advanced in an interleaved order by one consumer thread
    (scen['order']: cyclic list of object indices; default round robin).

    scen['objects'] = [{'url', 'ws', 'connect', 'app'}, ...]
    scen['conns_by_host'] = {host: [conn spec, ...]}
    Returns one Trace per object (they share the World)."""
    W.install()
    _RUNS[0] += 1
    if _RUNS[0] % 64 == 0:
        W.set_current(None)
        gc.collect()
    w = W.World(scen)
    W.set_current(w)
    objs = scen['objects']
    traces, gens, apps = [], [], []
    for o in objs:
        tr = Trace()
        tr.world = w
        ws = _make_ws(o)
        tr.ws = ws
        tr.host = ws.host
        app = App(o.get('app'), tr, w)
        app.ws = ws

        def sock_fn(ws=ws):
            sess = ws.state.session
            sk = getattr(sess, '_sock', None) if sess is not None else None
            return getattr(sk, '_st', None)
        app.sock_fn = sock_fn
        traces.append(tr)
        apps.append(app)
        gens.append(ws.connect(**(o.get('connect') or {})))
    order = scen.get('order') or list(range(len(objs)))
    active = set(range(len(objs)))
    k = 0
    steps = 0
    while active:
        i = order[k % len(order)]
        k += 1
        if i not in active:
            if not any(j in active for j in order):
                break
            continue
        steps += 1
        tr = traces[i]
        if steps > scen.get('max_events', 20000):
            tr.hang = 'event budget exhausted'
            break
        try:
            event = next(gens[i])
        except StopIteration:
            tr.finished = True
            active.discard(i)
            continue
        except W.SimHang as e:
            tr.hang = str(e)
            active.discard(i)
            continue
        except Exception as e:
            tr.escaped = (type(e).__name__, str(e)[:200])
            active.discard(i)
            continue
        rec = EvRec()
        rec.seq = w.next_seq()
        rec.t = w.now
        rec.name = event.name
        rec.obj = event
        rec.snap = snapshot(event)
        rec.index = len(tr.events)
        rec.conn = w.conn_index
        st = apps[i].sock_fn()
        rec.wire_len = len(st.out_bytes) if st is not None else 0
        rec.open_socks = sum(1 for s_ in w.socks if not s_.closed)
        tr.events.append(rec)
        apps[i].react(rec)
    for tr in traces:
        tr.world = WorldView(w, tr.host)
    return traces


class WorldView(object):
    """The shared World as seen from one of several WebSocket objects:
    `socks` lists only the sockets that object connected."""

    def __init__(self, w, host):
        self._w = w
        self._host = host

    @property
    def socks(self):
        return [s for s in self._w.socks
                if s.conn is not None and s.conn.host == self._host]

    def __getattr__(self, name):
        return getattr(self._w, name)


def pair_scenario(sc_a, sc_b, order=None):
    """Combine two single-connection scenarios into one multi-object
    scenario (hosts a.test / b.test)."""
    objs = []
    by_host = {}
    for host, sc in (('a.test', sc_a), ('b.test', sc_b)):
        url = sc.get('url', 'ws://example.test/')
        scheme, rest = url.split('://', 1)
        path = '/' + rest.split('/', 1)[1] if '/' in rest else '/'
        objs.append({'url': '%s://%s%s' % (scheme, host, path),
                     'ws': sc.get('ws'), 'connect': sc.get('connect'),
                     'app': sc.get('app')})
        by_host[host] = sc['conns']
    out = {'objects': objs, 'conns_by_host': by_host,
           'epoch': sc_a.get('epoch', 0),
           'max_polls': 40000, 'max_events': 40000}
    if order:
        out['order'] = order
    return out


def collect():
    """Between runs: release the previous world and collect cycles."""
    W.set_current(None)
    gc.collect()
