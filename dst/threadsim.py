"""ThreadSim: real threads, released one at a time by a seeded scheduler.

Every simulated thread is a real threading.Thread parked on its own
semaphore; exactly one holds the baton.  Yield points: every traced source
line of lomond/*.py (sys.settrace), SimLock acquire/release, the middle of the
split fake sendall, and the fake poll.  Which thread runs next is decided by
the scheduler only, so a run is a pure function of (scenario, schedule).
"""
import os
import random
import sys
import threading

from . import world as W
from . import netsim
from . import bootstrap

LOMOND_DIR = os.path.realpath(os.path.join(bootstrap.REPO, 'lomond')) + os.sep
CLOCK = -1
REAL_TIMEOUT = 30.0      # seconds a parked thread waits before giving up


class Deadlock(Exception):
    pass


class SimThread(object):
    def __init__(self, tid, name, target):
        self.tid = tid
        self.name = name
        self.target = target
        self.sem = threading.Semaphore(0)
        self.state = 'new'          # new | runnable | lock | poll | done
        self.blocked_on = None
        self.deadline = None
        self.ready_fn = None
        self.exc = None
        self.thread = None
        self.calls = []


class SimLock(object):
    def __init__(self, sched, reentrant=False):
        self.sched = sched
        self.owner = None
        self.waiters = []
        self.reentrant = reentrant
        self.depth = 0

    def acquire(self, blocking=True, timeout=-1):
        s = self.sched
        me = s.current
        if me is None or not s.active:
            # outside the concurrent phase: single-threaded, never contended
            if self.owner == 'outside' and not self.reentrant and blocking \
                    and (timeout is None or timeout < 0):
                raise W.SimHang('deadlock: the only thread acquires a lock '
                                'it already holds')
            if self.owner == 'outside' and not self.reentrant:
                return False
            self.owner = 'outside'
            self.depth += 1
            return True
        s.yield_point('lock.acquire')
        if self.reentrant and self.owner == me.tid:
            self.depth += 1
            return True
        deadline = None
        if blocking and timeout is not None and timeout >= 0:
            # a timed wait: measured on the simulated clock
            deadline = s.w.now + int(round(timeout * 1e6))
            s.stats['timed_lock_waits'] += 1
        while self.owner is not None:
            if not blocking:
                return False
            if deadline is not None and s.w.now >= deadline:
                s.stats['lock_wait_timed_out'] += 1
                return False
            me.state = 'lock'
            me.blocked_on = self
            me.deadline = deadline
            self.waiters.append(me)
            s.stats['lock_contended'] += 1
            s.switch_away(me)
            me.state = 'runnable'
            me.deadline = None
        self.owner = me.tid
        self.depth = 1
        return True

    def release(self):
        s = self.sched
        if self.reentrant and self.depth > 1:
            self.depth -= 1
            return
        self.depth = 0
        self.owner = None
        for t in self.waiters:
            if t.state == 'lock':
                t.state = 'runnable'
                t.blocked_on = None
        del self.waiters[:]
        if s.current is not None and s.active:
            s.yield_point('lock.release')

    def __enter__(self):
        self.acquire()
        return self

    def __exit__(self, *a):
        self.release()

    def locked(self):
        return self.owner is not None


# ---------------------------------------------------------------------------
# choosers: decide who runs at a yield point

class RandomWalk(object):
    kind = 'random'

    def __init__(self, seed, stay):
        self.rng = random.Random(seed)
        self.stay = stay

    def choose(self, cands, cur, step):
        real = [c for c in cands if c != CLOCK]
        if cur is not None and cur in cands and self.rng.random() < self.stay:
            return cur
        if real and (CLOCK not in cands or self.rng.random() < 0.9):
            return self.rng.choice(real)
        return self.rng.choice(cands)


class PCT(object):
    """Random priorities, d priority-change points at random steps."""
    kind = 'pct'

    def __init__(self, seed, nthreads, d, horizon):
        self.rng = random.Random(seed)
        ids = list(range(nthreads))
        self.rng.shuffle(ids)
        self.prio = {t: p + d for p, t in enumerate(ids)}
        self.prio[CLOCK] = -1
        self.change = sorted(self.rng.randrange(1, max(2, horizon))
                             for _ in range(d))
        self.low = d

    def choose(self, cands, cur, step):
        while self.change and step >= self.change[0]:
            self.change.pop(0)
            if cur is not None:
                self.low -= 1
                self.prio[cur] = self.low
        return max(cands, key=lambda c: (self.prio.get(c, 0), -c))


class Preempt(object):
    """Non-preemptive default (run the current thread until it blocks or
    ends, then the lowest id) except at the listed (step, thread) points."""
    kind = 'preempt'

    def __init__(self, points):
        self.points = {int(s): int(t) for s, t in points}

    def choose(self, cands, cur, step):
        want = self.points.get(step)
        if want is not None and want in cands:
            return want
        if cur is not None and cur in cands:
            return cur
        real = [c for c in cands if c != CLOCK]
        return min(real) if real else CLOCK


class Explicit(object):
    """Replay of a recorded switch list {step: thread}."""
    kind = 'explicit'

    def __init__(self, switches):
        self.sw = {int(k): int(v) for k, v in switches.items()}

    def choose(self, cands, cur, step):
        want = self.sw.get(step)
        if want is not None and want in cands:
            return want
        if cur is not None and cur in cands:
            return cur
        real = [c for c in cands if c != CLOCK]
        return min(real) if real else CLOCK


class Sites(object):
    """Non-preemptive default except at *site* rules: when thread `tid` is
    about to run the yield point `where` for the occ-th time, hand over to
    `to`.  Unlike step numbers, sites stay meaningful after an earlier
    switch has shifted everything, so rules compose: this is what a
    race-directed sweep over several pre-emption points needs.
    rules: [[tid, where, occ, to], ...]; where = [file, line] or a name;
    `points` (step, thread) as in Preempt, for the initial order."""
    kind = 'sites'

    def __init__(self, rules, points):
        self.rules = {}
        for tid, where, occ, to in rules:
            key = (int(tid), tuple(where) if isinstance(where, (list, tuple))
                   else where, int(occ))
            self.rules[key] = int(to)
        self.points = {int(s): int(t) for s, t in points or []}
        self.count = {}
        self.want = None
        self.fired = 0

    def note(self, tid, where):
        k = (tid, where)
        n = self.count.get(k, 0) + 1
        self.count[k] = n
        self.want = self.rules.get((tid, where, n))

    def choose(self, cands, cur, step):
        want, self.want = self.want, None
        if want is None:
            want = self.points.get(step)
        elif want in cands:
            self.fired += 1
        if want is not None and want in cands:
            return want
        if cur is not None and cur in cands:
            return cur
        real = [c for c in cands if c != CLOCK]
        return min(real) if real else CLOCK


def make_chooser(spec, nthreads):
    k = spec.get('kind', 'preempt')
    if k == 'sites':
        return Sites(spec.get('rules') or [], spec.get('points'))
    if k == 'random':
        return RandomWalk(spec.get('seed', 0), spec.get('stay', 0.8))
    if k == 'pct':
        return PCT(spec.get('seed', 0), nthreads, spec.get('d', 2),
                   spec.get('horizon', 300))
    if k == 'explicit':
        return Explicit(spec.get('switches') or {})
    return Preempt(spec.get('points') or [])


# ---------------------------------------------------------------------------

class Scheduler(object):
    def __init__(self, world, chooser, max_steps=20000, granularity='line'):
        self.w = world
        self.chooser = chooser
        self.threads = []
        self.current = None
        self.active = False         # concurrent phase running
        self.steps = 0
        self.max_steps = max_steps
        self.switches = {}          # step -> tid  (the replayable schedule)
        self.switch_sites = []      # (from, to, where) for the signature
        self.aborted = False
        self.error = None
        self.done_evt = threading.Event()
        self.stats = W.collections.Counter()
        self.granularity = granularity
        self._locks = []
        self._frames = set()
        self.close_began = []       # (tid, step) of every close() call
        self.state_created = []     # steps at which a State() was finished
        self.stall = None
        self.stalled_on = None     # index of the socket whose write stalled
        self.freezes = {}           # step -> (tid, microseconds)
        self._note = getattr(chooser, 'note', None)
        self.visits = None          # recording runs: [(tid, where)] in order
        self.last_visit = {}
        self.accesses = None        # recording runs: [(visit index, tid, attr, r/w)]

    # -- objects handed to lomond
    def make_lock(self, reentrant=False):
        lk = SimLock(self, reentrant)
        self._locks.append(lk)
        return lk

    def split_write(self, sock, data):
        """The socket write itself takes two steps."""
        if not self.active or self.current is None or len(data) < 2:
            sock._record_out(data)
            return
        h = len(data) // 2
        sock._record_out(data[:h])
        me = self.current
        st = self.stall
        if st and st.get('tid') == me.tid and \
                st.get('k', 0) == self.stats['split_writes:%d' % me.tid]:
            # the peer stops reading: this sendall blocks (in the kernel)
            # for a while with half of the data out
            self.stats['stalled_writes'] += 1
            self.stalled_on = sock._st.index
            self.w.fired('sendall_stalled_midway')
            us = int(st['us'])
            tmo = sock._st.timeout
            timed_out = tmo is not None and us > tmo * 1e6
            if timed_out:
                us = int(tmo * 1e6)
            me.state = 'sleep'
            me.deadline = self.w.now + us
            self.switch_away(me)
            me.state = 'runnable'
            me.deadline = None
            if timed_out:
                # a socket with a time-out gives up on the rest: half of the
                # data is out, the caller gets socket.timeout
                self.w.fired('sendall_timeout_after_partial_write')
                self.stats['split_writes'] += 1
                self.stats['split_writes:%d' % me.tid] += 1
                raise W._real_socket.timeout('timed out')
        else:
            self.yield_point('sendall.mid')
        sock._record_out(data[h:])
        self.stats['split_writes'] += 1
        self.stats['split_writes:%d' % me.tid] += 1

    # -- thread management
    def add_thread(self, name, target):
        t = SimThread(len(self.threads), name, target)
        self.threads.append(t)
        return t

    def _bootstrap(self, t):
        t.sem.acquire()
        if self.aborted:
            t.state = 'done'
            return
        sys.settrace(self._global_trace)
        try:
            t.target(t)
        except W.SimAbort:
            pass
        except BaseException as e:      # noqa
            t.exc = e
        finally:
            sys.settrace(None)
            t.state = 'done'
            try:
                self._thread_finished(t)
            except BaseException as e:  # noqa
                self.error = self.error or e
                self.done_evt.set()

    def start_thread(self, t):
        t.state = 'runnable'
        t.thread = threading.Thread(target=self._bootstrap, args=(t,),
                                    name='sim-%d' % t.tid)
        t.thread.daemon = True
        t.thread.start()

    # -- tracing
    def _global_trace(self, frame, event, arg):
        if event == 'call' and \
                frame.f_code.co_filename.startswith(LOMOND_DIR):
            return self._local_trace
        return None

    def _local_trace(self, frame, event, arg):
        if event == 'line' and self.active:
            self.yield_point((os.path.basename(frame.f_code.co_filename),
                              frame.f_lineno))
            qn = getattr(frame.f_code, 'co_qualname', frame.f_code.co_name)
            if qn == 'WebSocket.close' and id(frame) not in self._frames:
                # the step at which the first line of a close() call runs
                self._frames.add(id(frame))
                me = self.current
                self.close_began.append((me.tid if me else None, self.steps))
        elif event == 'return' and self.active and getattr(
                frame.f_code, 'co_qualname', '') == 'WebSocket.State.__init__':
            # a new connection state exists from here on (it is assigned
            # to WebSocket.state before the next line of that thread)
            self.state_created.append(self.steps)
        return self._local_trace

    # -- scheduling
    def _candidates(self):
        w = self.w
        cands = []
        pollers = False
        for t in self.threads:
            if t.state == 'runnable':
                cands.append(t.tid)
            elif t.state == 'poll':
                due = w.timeline and w.timeline[0][0] <= w.now
                if due or (t.ready_fn is not None and t.ready_fn()) or \
                        (t.deadline is not None and w.now >= t.deadline):
                    cands.append(t.tid)
                else:
                    pollers = True
            elif t.state in ('sleep', 'lock') and t.deadline is not None:
                if w.now >= t.deadline:
                    cands.append(t.tid)
                else:
                    pollers = True
        if pollers and (w.timeline or any(
                t.state in ('poll', 'sleep', 'lock') and
                t.deadline is not None for t in self.threads)):
            cands.append(CLOCK)
        return cands

    def _advance_clock(self):
        w = self.w
        targets = [t.deadline for t in self.threads
                   if t.state in ('poll', 'sleep', 'lock') and
                   t.deadline is not None]
        if w.timeline:
            targets.append(w.timeline[0][0])
        if not targets:
            raise Deadlock('clock chosen with nothing to wait for')
        tgt = min(targets)
        if any(t.state == 'runnable' for t in self.threads):
            # time passes while a runnable thread is not running, but an
            # operating system does not starve it for minutes in one go: the
            # step is capped at one simulated second
            tgt = min(tgt, w.now + 1000000)
        w.advance(tgt)
        w.run_due()
        self.stats['clock_advances'] += 1

    def _pick(self, me):
        """Choose the next thread; handles the clock pseudo-thread."""
        while True:
            self.steps += 1
            if self.steps > self.max_steps:
                raise W.SimHang('schedule step budget exhausted')
            cands = self._candidates()
            if not cands:
                return None
            cur = me.tid if (me is not None and me.tid in cands) else None
            nxt = self.chooser.choose(cands, cur, self.steps)
            if nxt not in cands:
                nxt = cands[0]
            if nxt != (me.tid if me is not None else None):
                self.switches[self.steps] = nxt
            if nxt == CLOCK:
                self._advance_clock()
                continue
            return self.threads[nxt]

    def yield_point(self, where):
        me = self.current
        if me is None or not self.active:
            return
        if self.aborted:
            raise W.SimAbort()
        fz = self.freezes.get(self.steps + 1) if self.freezes else None
        if fz is not None and fz[0] == me.tid:
            # the operating system takes this thread off the CPU for a while
            # (descheduled under load, page fault, stopped by a debugger ...)
            self.stats['thread_frozen'] += 1
            self.w.fired('thread_descheduled')
            self.switch_sites.append((me.tid, -2, where))
            me.state = 'sleep'
            me.deadline = self.w.now + int(fz[1])
            self.switch_away(me)
            me.state = 'runnable'
            me.deadline = None
            return
        if self._note is not None:
            self._note(me.tid, where)
        if self.visits is not None:
            self.last_visit[me.tid] = len(self.visits)
            self.visits.append((me.tid, where))
        nxt = self._pick(me)
        if nxt is None or nxt is me:
            return
        self.switch_sites.append((me.tid, nxt.tid, where))
        self._transfer(me, nxt)

    def switch_away(self, me):
        """Current thread cannot continue (lock / poll): run someone else."""
        nxt = self._pick(me)
        if nxt is None:
            raise Deadlock('no runnable thread; states %s' % (
                [(t.name, t.state) for t in self.threads],))
        if nxt is me:
            return
        self._transfer(me, nxt)

    def _transfer(self, me, nxt):
        self.current = nxt
        if nxt.state == 'poll':
            nxt.state = 'runnable'
        nxt.sem.release()
        if not me.sem.acquire(timeout=REAL_TIMEOUT):
            self.error = self.error or RuntimeError('thread %s starved' %
                                                    me.name)
            raise W.SimAbort()
        if self.aborted:
            raise W.SimAbort()
        self.current = me

    def _thread_finished(self, t):
        if self.aborted:
            if all(x.state == 'done' for x in self.threads):
                self.done_evt.set()
            return
        if all(x.state in ('done', 'new') for x in self.threads):
            self.current = None
            self.done_evt.set()
            return
        try:
            nxt = self._pick(None)
        except BaseException as e:      # noqa
            self.error = self.error or e
            self.done_evt.set()
            return
        if nxt is None:
            self.error = self.error or Deadlock(
                'deadlock: %s' % ([(x.name, x.state) for x in self.threads],))
            self.done_evt.set()
            return
        self.current = nxt
        if nxt.state == 'poll':
            nxt.state = 'runnable'
        nxt.sem.release()

    def blocking_poll(self, ready, deadline):
        """The fake poll() of a simulated thread."""
        w = self.w
        me = self.current
        if me is None or not self.active:
            # before the concurrent phase: behave like NetSim
            while True:
                nxt = w.next_time()
                if nxt is None or (deadline is not None and nxt > deadline):
                    if deadline is None:
                        raise W.SimHang('blocked forever in poll')
                    w.advance(deadline)
                    return ready()
                w.advance(nxt)
                w.run_due()
                r = ready()
                if r:
                    return r
        while True:
            w.run_due()
            r = ready()
            if r:
                return r
            if deadline is not None and w.now >= deadline:
                return []
            me.state = 'poll'
            me.deadline = deadline
            me.ready_fn = ready
            self.switch_away(me)
            me.state = 'runnable'

    # -- driving a whole run
    def run_all(self, first):
        """Called by the harness thread: hand the baton to `first`, wait."""
        self.current = first
        first.sem.release()
        if not self.done_evt.wait(REAL_TIMEOUT * 2):
            self.error = self.error or RuntimeError('simulation stalled')
        self.abort()

    def abort(self):
        self.aborted = True
        for t in self.threads:
            if t.state != 'done':
                t.sem.release()
        for t in self.threads:
            if t.thread is not None:
                t.thread.join(5.0)


# ---------------------------------------------------------------------------

def _record_accesses(ws, sched):
    """Recording runs of the race-directed sweep: every read and write of an
    attribute of the connection state (WebSocket.State), of its session and
    of its compression object during the concurrent phase is logged with the
    thread and the yield point it happened at.  When the concurrent phase
    starts the class of each of these *instances* is replaced by a logging
    subclass; the library code is not touched."""
    sched.visits = []
    sched.accesses = []

    def _log(tag, name, kind):
        me = sched.current
        if sched.active and me is not None and not name.startswith('__'):
            sched.accesses.append((sched.last_visit.get(me.tid, -1), me.tid,
                                   tag + '.' + name, kind))

    def _wrap(obj, tag):
        base = type(obj)
        if obj is None or getattr(base, '_verif_rec', False):
            return

        class Rec(base):
            _verif_rec = True

            def __getattribute__(self, name):
                v = base.__getattribute__(self, name)
                # fetching a mutable object (zlib context, buffer, list) is
                # as good as writing: what is done to it is not visible here
                mut = isinstance(v, (bytearray, list, dict, set)) or \
                    type(v).__module__ == 'zlib'
                _log(tag, name, 'w' if mut else 'r')
                return v

            def __setattr__(self, name, value):
                _log(tag, name, 'w')
                base.__setattr__(self, name, value)

        Rec.__name__ = base.__name__
        Rec.__qualname__ = base.__qualname__
        Rec.__module__ = base.__module__
        try:
            obj.__class__ = Rec
        except TypeError:
            pass

    def hook():
        st = ws.__dict__.get('state')
        if st is None:
            return
        d = getattr(st, '__dict__', {})
        _wrap(st, 'state')
        _wrap(d.get('session'), 'session')
        _wrap(d.get('compression'), 'deflate')

    sched._rec_hook = hook


class TCall(object):
    __slots__ = ('tid', 'k', 'op', 'outcome', 'exc', 'exc_is_wse', 'step0',
                 'step1', 'wire_before')


def run(scen):
    """Execute one ThreadSim scenario.

    scen: NetSim scenario fields plus
      'threads': [[op, ...], ...]   programs of the sender threads
      'start_at': {'name': .., 'nth': ..}  event at which they are spawned
      'schedule': chooser spec
    Returns (trace, scheduler)."""
    W.install()
    netsim._RUNS[0] += 1
    if netsim._RUNS[0] % 32 == 0:
        W.set_current(None)
        import gc
        gc.collect()
    w = W.World(scen)
    W.set_current(w)
    programs = scen.get('threads') or []
    second = scen.get('second')
    chooser = make_chooser(scen.get('schedule') or {},
                           len(programs) + 1 + (1 if second else 0))
    sched = Scheduler(w, chooser, scen.get('max_steps', 20000))
    sched.stall = scen.get('stall')
    for st_, tid_, us_ in (scen.get('schedule') or {}).get('freeze') or []:
        sched.freezes[int(st_)] = (int(tid_), int(us_))
    w.sched = sched
    trace = netsim.Trace()
    trace.world = w
    ws = netsim._make_ws(scen)
    trace.ws = ws
    if scen.get('record_access'):
        _record_accesses(ws, sched)
    app = netsim.App(scen.get('app'), trace, w)
    app.ws = ws
    ckw = dict(scen.get('connect') or {})
    start_at = scen.get('start_at') or {'name': 'ready'}
    tcalls = []
    senders = []

    def sender(prog):
        def body(t):
            from lomond import errors
            for k, op in enumerate(prog):
                rec = TCall()
                rec.tid, rec.k, rec.op = t.tid, k, op
                rec.step0 = sched.steps
                st = w.socks[-1] if w.socks else None
                rec.wire_before = len(st.out_bytes) if st is not None else 0
                crec = netsim.CallRec()
                crec.args_intact = True
                try:
                    app._call(ws, op, crec)
                    rec.outcome, rec.exc, rec.exc_is_wse = 'ok', None, False
                except (W.SimAbort, W.SimHang):
                    raise
                except Exception as e:
                    rec.outcome = 'raised'
                    rec.exc = type(e).__name__
                    rec.exc_is_wse = isinstance(e, errors.WebSocketError)
                rec.step1 = sched.steps
                tcalls.append(rec)
        return body

    # an optional second WebSocket object with its own event-loop thread
    # (scen['second'] = {'url', 'ws', 'connect'}; its connection specs come
    # from scen['conns_by_host']).  It connects first, sequentially, so that
    # w.socks[-1] stays the socket of the main object.
    gen2 = [None]
    trace.events2 = []
    trace.finished2 = False
    trace.escaped2 = None

    def rec2(event):
        rec = netsim.EvRec()
        rec.seq = w.next_seq()
        rec.t = w.now
        rec.name = event.name
        rec.obj = event
        rec.snap = netsim.snapshot(event)
        rec.index = len(trace.events2)
        rec.conn = w.conn_index
        rec.wire_len = 0
        rec.open_socks = sum(1 for s_ in w.socks if not s_.closed)
        trace.events2.append(rec)

    def loop2_body(t):
        try:
            for event in gen2[0]:
                rec2(event)
                if len(trace.events2) > scen.get('max_events', 2000):
                    raise W.SimHang('event budget exhausted (second object)')
            trace.finished2 = True
        except W.SimHang as e:
            trace.hang = trace.hang or str(e)
        except W.SimAbort:
            raise
        except Exception as e:
            trace.escaped2 = (type(e).__name__, str(e)[:200])

    loop2 = [None]

    def loop_body(t):
        counts = {}
        started = [False]
        if second:
            ws2 = netsim._make_ws(second)
            trace.ws2 = ws2
            gen2[0] = ws2.connect(**dict(second.get('connect') or {}))
            for event in gen2[0]:
                rec2(event)
                if event.name in ('poll', 'disconnected', 'connect_fail'):
                    break
        gen = ws.connect(**ckw)
        idx = 0
        connects_left = [scen.get('n_connects', 1) - 1]
        kept = []
        try:
          while True:
              for event in gen:
                  rec = netsim.EvRec()
                  rec.seq = w.next_seq()
                  rec.t = w.now
                  rec.name = event.name
                  rec.obj = event
                  rec.snap = netsim.snapshot(event)
                  rec.index = idx
                  rec.conn = w.conn_index
                  rec.wire_len = len(w.socks[-1].out_bytes) if w.socks else 0
                  rec.open_socks = sum(1 for s_ in w.socks if not s_.closed)
                  trace.events.append(rec)
                  idx += 1
                  if idx > scen.get('max_events', 2000):
                      raise W.SimHang('event budget exhausted')
                  nth = counts.get(event.name, 0)
                  counts[event.name] = nth + 1
                  if not started[0] and event.name == start_at.get('name') and \
                          nth == start_at.get('nth', 0):
                      started[0] = True
                      # the concurrent phase begins: spawn the sender threads
                      if getattr(sched, '_rec_hook', None) is not None:
                          sched._rec_hook()
                      sched.active = True
                      for th in senders:
                          sched.start_thread(th)
                      if loop2[0] is not None:
                          sched.start_thread(loop2[0])
                      app.observe(rec)
                      sched.yield_point('spawn')
                  elif not started[0]:
                      app.observe(rec)
                  elif started[0]:
                      r = app.react(rec)
                      if r is not None and r[0] == 'abandon':
                          trace.abandoned = (rec.index, r[1], rec.name)
                          if r[1] == 'close':
                              gen.close()
                          break
              else:
                trace.finished = True
              if scen.get('hold') and trace.abandoned is not None:
                  kept.append(gen)    # the consumer keeps the old generator
              if not scen.get('rebind'):
                  gen = None      # released first, then connect() again
              if trace.abandoned is not None and connects_left[0] > 0 and \
                      not trace.finished:
                  # the consumer connects the same object again
                  connects_left[0] -= 1
                  trace.events.append(netsim._sep(w, idx))
                  idx += 1
                  trace.reconnected = True
                  gen = ws.connect(**ckw)
                  continue
              gen = None
              del kept[:]
              break
        except W.SimHang as e:
            trace.hang = str(e)
        except W.SimAbort:
            raise
        except Exception as e:
            trace.escaped = (type(e).__name__, str(e)[:200])

    loop = sched.add_thread('loop', loop_body)
    for prog in programs:
        senders.append(sched.add_thread('sender', sender(prog)))
    if second:
        loop2[0] = sched.add_thread('loop2', loop2_body)
    sched.start_thread(loop)
    try:
        sched.run_all(loop)
    finally:
        w.sched = None
    for t in sched.threads:
        if t.exc is not None and not isinstance(t.exc, W.SimAbort):
            if isinstance(t.exc, W.SimHang):
                trace.hang = trace.hang or str(t.exc)
            else:
                sched.error = sched.error or t.exc
    if isinstance(sched.error, W.SimHang):
        trace.hang = trace.hang or str(sched.error)
        sched.error = None
    trace.tcalls = tcalls
    if trace.abandoned is not None:
        loop.target = None
        netsim.observe_release(trace)
    # Line-trace functions stay referenced from frames of lomond's generators
    # (f_trace) beyond what the collector can see; cut every link from the
    # scheduler to the world, the threads and their closures so that a
    # surviving scheduler shell costs bytes, not the whole run.
    for t in sched.threads:
        t.target = None
        t.thread = None
        t.ready_fn = None
        t.blocked_on = None
        t.exc = None
    for lk in sched._locks:
        lk.sched = None
        lk.waiters = []
    sched.threads = []
    sched._locks = []
    sched.w = None
    sched.chooser = None
    sched.current = None
    return trace, sched
