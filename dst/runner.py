"""Common driver: seeded search over cases on 16 forked workers, shrinking,
replay files, known findings, evidence.

A property module provides
  ID, LEVEL ('exploration' | 'fault_enumeration'), RULE (text)
  plan(tier) -> [(family, count), ...]            fixed counts per tier
  make_case(family, i, rng, tier) -> case (JSON)  pure function of its args
  execute(case) -> Result                         pure function of the case
  SHRINK_LISTS  -> list of key paths to lists in the case that ddmin may cut
  optional simplify(case) -> iterable of simpler candidate cases
  optional REAL / STUBS / ASSUMPTIONS text lists
"""
import argparse
import collections
import concurrent.futures
import copy
import faulthandler
import hashlib
import json
import multiprocessing
import os
import subprocess
import sys
import time
import traceback

from . import bootstrap
from . import scen as S

VERIF = bootstrap.VERIF_DIR
EVIDENCE_DIR = os.path.join(VERIF, 'evidence')
REPLAY_DIR = os.path.join(VERIF, 'replays')
KNOWN_FILE = os.path.join(VERIF, 'known_findings.json')


class Result(object):
    """Outcome of executing one case."""
    __slots__ = ('violations', 'sig', 'stats', 'sim_us', 'digest',
                 'nontrivial', 'sample', 'xobs')

    def __init__(self):
        self.violations = []        # [(key, message)]
        self.sig = ''
        self.stats = collections.Counter()
        self.sim_us = 0
        self.digest = ''
        self.nontrivial = True
        self.sample = None
        self.xobs = []              # cross-property observations (not counted)

    def bad(self, key, msg):
        self.violations.append((key, msg))


def _sig64(s):
    return int.from_bytes(hashlib.sha256(s.encode()).digest()[:8], 'big')


# ---------------------------------------------------------------------------
# worker side

_PROP = None


def _index_to_family(plan, idx):
    for fam, count in plan:
        if idx < count:
            return fam, idx
        idx -= count
    raise IndexError(idx)


def _work(args):
    prop_name, tier, base_seed, lo, hi, stride, det_every, budget_s = args
    faulthandler.dump_traceback_later(budget_s, exit=True)
    try:
        import importlib
        import gc
        prop = importlib.import_module('dst.props.' + prop_name)
        plan = prop.plan(tier)
        out = {'n': 0, 'sigs': set(), 'stats': collections.Counter(),
               'sim_us': 0, 'viol': [], 'samples': [], 'nontrivial': 0,
               'det_pairs': 0, 'det_mismatch': [], 'errors': [],
               'fam': collections.Counter(), 'xobs': collections.Counter(),
               'nviol': 0}
        nloop = 0
        for idx in range(lo, hi, stride):
            nloop += 1
            fam, i = _index_to_family(plan, idx)
            rng = S.rng_for(base_seed, prop.ID + '/' + fam, i)
            try:
                case = prop.make_case(fam, i, rng, tier)
                if case is None:
                    continue
                case['_id'] = {'prop': prop.ID, 'family': fam, 'i': i,
                               'seed': base_seed, 'idx': idx, 'lo': lo,
                               'stride': stride, 'tier': tier,
                               'run_seed': S.run_seed(base_seed,
                                                      prop.ID + '/' + fam, i)}
                # one run in six with the application's DEBUG logging on
                if idx % 6 == 4:
                    case['_debug_log'] = True
                res = _execute(prop, case)
            except BaseException as e:
                if isinstance(e, KeyboardInterrupt):
                    raise
                out['errors'].append('%s[%d]: %s' % (
                    fam, i, traceback.format_exc()[-1500:]))
                if len(out['errors']) > 5:
                    break
                continue
            out['n'] += 1
            out['fam'][fam] += 1
            out['stats'].update(res.stats)
            out['sim_us'] += res.sim_us
            for x in res.xobs:
                out['xobs'][x] += 1
            if res.nontrivial:
                out['nontrivial'] += 1
                out['sigs'].add(_sig64(res.sig))
            if res.violations:
                out['nviol'] += 1
                if len(out['viol']) < 12:
                    out['viol'].append((case, res.violations))
            if len(out['samples']) < 2 and res.sample is not None \
                    and res.nontrivial:
                out['samples'].append(res.sample)
            if det_every and idx % det_every == 0:
                res2 = _execute(prop, copy.deepcopy(case))
                out['det_pairs'] += 1
                if res2.digest != res.digest:
                    out['det_mismatch'].append((fam, i))
            if nloop % 200 == 0:
                gc.collect()
        gc.collect()
        return out
    finally:
        faulthandler.cancel_dump_traceback_later()


# ---------------------------------------------------------------------------
# shrinking

def _get(case, path):
    cur = case
    for k in path:
        cur = cur[k]
    return cur


def _set(case, path, value):
    cur = case
    for k in path[:-1]:
        cur = cur[k]
    cur[path[-1]] = value


def _list_paths(case, spec):
    """Expand a spec path that may contain '*' (all list indices)."""
    paths = [()]
    for k in spec:
        nxt = []
        for p in paths:
            try:
                cur = _get(case, p)
            except (KeyError, IndexError, TypeError):
                continue
            if k == '*':
                if isinstance(cur, list):
                    nxt.extend(p + (i,) for i in range(len(cur)))
            else:
                if isinstance(cur, dict) and k in cur:
                    nxt.append(p + (k,))
                elif isinstance(cur, list) and isinstance(k, int) \
                        and k < len(cur):
                    nxt.append(p + (k,))
        paths = nxt
    return [p for p in paths if isinstance(_get(case, p), list)]


def shrink(prop, case, key, max_exec=400, deadline=None):
    """ddmin over the lists named in prop.SHRINK_LISTS plus prop.simplify;
    keeps a candidate only if the same violation key persists."""
    budget = [max_exec]

    def still_fails(cand):
        if budget[0] <= 0 or (deadline and time.time() > deadline):
            return False
        budget[0] -= 1
        try:
            res = _execute(prop, copy.deepcopy(cand))
        except BaseException:
            return False
        return any(k == key for k, _ in res.violations)

    best = copy.deepcopy(case)
    changed = True
    rounds = 0
    while changed and budget[0] > 0 and rounds < 6:
        rounds += 1
        changed = False
        for spec in getattr(prop, 'SHRINK_LISTS', []):
            for path in _list_paths(best, spec):
                lst = _get(best, path)
                n = len(lst)
                chunk = max(1, n // 2)
                while chunk >= 1 and budget[0] > 0:
                    i = 0
                    progressed = False
                    while i < len(lst):
                        cand = copy.deepcopy(best)
                        cl = _get(cand, path)
                        del cl[i:i + chunk]
                        if still_fails(cand):
                            best = cand
                            lst = _get(best, path)
                            changed = progressed = True
                        else:
                            i += chunk
                    if chunk == 1:
                        break
                    chunk = max(1, chunk // 2)
        simp = getattr(prop, 'simplify', None)
        if simp is not None:
            for cand in simp(copy.deepcopy(best)):
                if budget[0] <= 0:
                    break
                if cand != best and still_fails(cand):
                    best = cand
                    changed = True
    return best


# ---------------------------------------------------------------------------
# known findings

def load_known():
    try:
        with open(KNOWN_FILE) as f:
            return json.load(f).get('findings', [])
    except IOError:
        return []


def known_open(prop_id):
    return {k['key']: k for k in load_known()
            if k.get('property') == prop_id and k.get('status') == 'open'}


def key_matches(key, known_keys):
    for k in known_keys:
        if key == k or (k.endswith('*') and key.startswith(k[:-1])):
            return k
    return None


# ---------------------------------------------------------------------------

def _run_prelude(prop, doc):
    """A violation that only shows after other connections were made in the
    same process (state leaking between WebSocket objects) carries the cases
    that have to run first."""
    for c in doc.get('prelude') or []:
        try:
            _execute(prop, copy.deepcopy(c))
        except BaseException:
            pass


def replay(prop, path):
    with open(path) as f:
        doc = json.load(f)
    case = doc['case']
    _run_prelude(prop, doc)
    res = _execute(prop, case)
    want = doc.get('key')
    print('replay %s: %d violation(s)' % (path, len(res.violations)))
    for k, m in res.violations:
        print('  %s: %s' % (k, m))
    keys = [k for k, _ in res.violations]
    known = known_open(prop.ID)
    if want is not None:
        hit = want in keys
    else:
        hit = bool(keys)
    if hit:
        k = want if want is not None else keys[0]
        if key_matches(k, known):
            print('KNOWN-FINDING: property=%s %s' % (
                prop.ID, known[key_matches(k, known)]['summary']))
            return 0
        print('VIOLATION property=%s replay=%s' % (prop.ID, path))
        return 1
    return 0


def _fresh_replay_reproduces(prop, path, key):
    """Re-execute the replay file in a fresh interpreter."""
    env = dict(os.environ)
    env['PYTHONHASHSEED'] = '0'
    cmd = [sys.executable, os.path.join(VERIF, 'check'), prop.ID,
           '--replay', path, '--expect-key', key]
    try:
        p = subprocess.run(cmd, env=env, stdout=subprocess.PIPE,
                           stderr=subprocess.STDOUT, timeout=600)
    except subprocess.TimeoutExpired:
        return False, 'timeout'
    return p.returncode == 3, p.stdout.decode('utf-8', 'replace')[-2000:]


def _history_replay(prop, path, case, key, msg, seed):
    """The violation did not reproduce from its own case in a fresh
    interpreter: it may depend on state left behind by the cases the same
    worker executed before it.  Re-create growing suffixes of that history
    and look for the shortest one that reproduces (each attempt in a fresh
    interpreter)."""
    cid = case.get('_id') or {}
    if 'idx' not in cid:
        return False
    plan = prop.plan(cid['tier'])
    before = list(range(cid['lo'], cid['idx'], cid['stride']))
    for k in (1, 2, 4, 8, 16, 32, 64, 128, 256):
        idxs = before[-k:]
        prelude = []
        for idx in idxs:
            fam, i = _index_to_family(plan, idx)
            rng = S.rng_for(seed, prop.ID + '/' + fam, i)
            try:
                c = prop.make_case(fam, i, rng, cid['tier'])
            except BaseException:
                c = None
            if c is not None:
                prelude.append(c)
        with open(path, 'w') as f:
            json.dump({'property': prop.ID, 'key': key, 'message': msg,
                       'seed': seed, 'case': case, 'prelude': prelude,
                       'note': 'state leaks between connections of one '
                               'process: the prelude cases must run first'},
                      f, indent=1, sort_keys=True)
        ok, _ = _fresh_replay_reproduces(prop, path, key)
        if ok:
            return True
        if k >= len(before):
            break
    return False


def expect_key(prop, path, key):
    with open(path) as f:
        doc = json.load(f)
    _run_prelude(prop, doc)
    res = _execute(prop, doc['case'])
    return 3 if any(k == key for k, _ in res.violations) else 0


def _execute(prop, case):
    """prop.execute(case) under the logging configuration the case names."""
    from . import bootstrap
    dbg = bool(isinstance(case, dict) and case.get('_debug_log'))
    bootstrap.set_debug_logging(dbg)
    # every case starts like a freshly started process as far as lomond's
    # module- and class-level containers go (lazily filled tables, caches):
    # runs do not depend on what the worker executed before, and first-use
    # paths are exercised by every case
    bootstrap.reset_process_state()
    try:
        res = prop.execute(case)
    finally:
        bootstrap.set_debug_logging(False)
    if dbg:
        res.stats['probe:debug_logging_enabled'] += 1
    return res


def run_check(prop, argv=None):
    ap = argparse.ArgumentParser(prog='check ' + prop.ID)
    ap.add_argument('--tier', default=os.environ.get('VERIF_TIER', 'quick'),
                    choices=['quick', 'thorough'])
    ap.add_argument('--seed', type=int,
                    default=int(os.environ.get('VERIF_SEED', '0') or 0))
    ap.add_argument('--replay')
    ap.add_argument('--expect-key')
    ap.add_argument('--workers', type=int,
                    default=int(os.environ.get('VERIF_WORKERS', '0') or 0))
    ap.add_argument('--scale', type=float,
                    default=float(os.environ.get('VERIF_SCALE', '1') or 1))
    ap.add_argument('--no-evidence', action='store_true')
    ap.add_argument('--dump-digests')
    ap.add_argument('--detect-only', action='store_true',
                    help='mutation surveys: report the first unlisted '
                         'violation key without minimising it')
    args = ap.parse_args(argv)

    if args.replay and args.expect_key:
        return expect_key(prop, args.replay, args.expect_key)
    if args.replay:
        return replay(prop, args.replay)

    t0 = time.time()
    tier = args.tier
    plan = prop.plan(tier)
    if args.scale != 1:
        plan = [(f, max(1, int(c * args.scale))) for f, c in plan]
        prop.plan = lambda tier, _p=plan: _p
    total = sum(c for _, c in plan)
    workers = args.workers or min(16, os.cpu_count() or 1)
    nchunks = max(1, min(total, workers * 8))
    step = (total + nchunks - 1) // nchunks
    budget = 1500 if tier == 'quick' else 6 * 3600
    det_every = 50 if tier == 'quick' else 500
    # strided work lists: expensive families are spread over all workers
    tasks = [(prop.__name__.rsplit('.', 1)[-1], tier, args.seed, lo,
              total, nchunks, det_every, budget)
             for lo in range(0, nchunks)]
    agg = {'n': 0, 'sigs': set(), 'stats': collections.Counter(),
           'sim_us': 0, 'viol': [], 'samples': [], 'nontrivial': 0,
           'det_pairs': 0, 'det_mismatch': [], 'errors': [],
           'fam': collections.Counter(), 'xobs': collections.Counter(),
           'nviol': 0}
    harness_error = None
    ctx = multiprocessing.get_context('fork')
    try:
        if workers == 1:
            results = map(_work, tasks)
        else:
            ex = concurrent.futures.ProcessPoolExecutor(
                max_workers=workers, mp_context=ctx)
            results = ex.map(_work, tasks)
        for out in results:
            agg['n'] += out['n']
            agg['sigs'] |= out['sigs']
            agg['stats'].update(out['stats'])
            agg['sim_us'] += out['sim_us']
            agg['viol'].extend(out['viol'])
            agg['nviol'] += out['nviol']
            if len(agg['samples']) < 4:
                agg['samples'].extend(out['samples'][:1])
            agg['nontrivial'] += out['nontrivial']
            agg['det_pairs'] += out['det_pairs']
            agg['det_mismatch'].extend(out['det_mismatch'])
            agg['errors'].extend(out['errors'])
            agg['fam'].update(out['fam'])
            agg['xobs'].update(out['xobs'])
        if workers != 1:
            ex.shutdown()
    except BaseException as e:
        harness_error = 'worker pool failed: %r' % (e,)
    if agg['errors']:
        harness_error = 'exceptions in harness:\n' + '\n'.join(agg['errors'][:3])
    det_note = None
    if agg['det_mismatch']:
        det_note = 'nondeterministic runs: %r' % (agg['det_mismatch'][:5],)

    # ---- violations -> known findings / shrink / replay files
    known = known_open(prop.ID)
    by_key = collections.OrderedDict()
    for case, viols in agg['viol']:
        for key, msg in viols:
            by_key.setdefault(key, (case, msg))
    reported_known = {}
    new_violations = []
    unreproduced = []
    skipped_keys = []
    deadline = time.time() + (120 if tier == 'quick' else 900)
    if args.detect_only:
        for key, (case, msg) in by_key.items():
            if key_matches(key, known) is None:
                print('DETECTED property=%s key=%s' % (prop.ID, key))
                print('  %s' % msg[:300])
                return 1
        if harness_error:
            print('HARNESS-ERROR %s' % harness_error)
            return 2
        print('%s detect-only: nothing found in %d runs' % (prop.ID, agg['n']))
        return 0
    for key, (case, msg) in by_key.items():
        kk = key_matches(key, known)
        if kk is not None:
            reported_known.setdefault(kk, 0)
            reported_known[kk] += 1
            continue
        if len(new_violations) >= 5:
            skipped_keys.append(key)
            continue
        small = shrink(prop, case, key, deadline=deadline)
        os.makedirs(REPLAY_DIR, exist_ok=True)
        fname = '%s-%s-%s.json' % (
            prop.ID, case.get('_id', {}).get('run_seed', 0),
            hashlib.sha256(key.encode()).hexdigest()[:8])
        path = os.path.join(REPLAY_DIR, fname)
        with open(path, 'w') as f:
            json.dump({'property': prop.ID, 'key': key, 'message': msg,
                       'seed': args.seed, 'case': small}, f, indent=1,
                      sort_keys=True)
        ok, log = _fresh_replay_reproduces(prop, path, key)
        if not ok:
            ok = _history_replay(prop, path, case, key, msg, args.seed)
        if not ok:
            unreproduced.append('replay of %s did not reproduce in a fresh '
                                'interpreter: %s' % (path, log))
            continue
        new_violations.append((key, msg, path))
    if unreproduced:
        # State leaking between the runs of one worker process (the code
        # under test keeps something process-wide) makes some failures
        # depend on a history longer than the prelude search tries.  If other
        # violations of this run were confirmed by a fresh-interpreter
        # replay, those stand and this is a note; otherwise nothing this run
        # reports can be trusted.
        if new_violations:
            for u in unreproduced:
                print('note: %s' % u)
        else:
            harness_error = unreproduced[0]

    # every open finding has a committed minimal replay: run it, so that the
    # finding is reported even if the search did not hit it, and so that a
    # finding that stopped reproducing is noticed
    for kk, ent in known.items():
        rp = ent.get('replay')
        if not rp:
            continue
        try:
            with open(os.path.join(VERIF, rp)) as f:
                doc = json.load(f)
            r2 = _execute(prop, doc['case'])
            hit = any(key_matches(k2, [kk]) for k2, _ in r2.violations)
        except BaseException as e:
            harness_error = 'known-finding replay %s failed: %r' % (rp, e)
            continue
        if hit:
            reported_known.setdefault(kk, 0)
        else:
            print('KNOWN-FINDING-GONE: property=%s %s no longer reproduces '
                  '(%s)' % (prop.ID, kk, rp))
    if det_note:
        # the same case gave two different traces in one process.  If a
        # violation was confirmed by a fresh-interpreter replay this is the
        # code under test leaking state between connections (the violation
        # stands); otherwise it is a harness problem.
        if new_violations:
            print('note: %s (state leaking between runs of one process)'
                  % det_note)
        else:
            harness_error = harness_error or det_note
    for kk, cnt in reported_known.items():
        print('KNOWN-FINDING: property=%s %s [%s; %d case(s) this run]' % (
            prop.ID, known[kk]['summary'], kk, cnt))
    for key, msg, path in new_violations:
        print('VIOLATION property=%s replay=%s' % (prop.ID, path))
        print('  key=%s' % key)
        print('  %s' % msg)

    if skipped_keys:
        print('further violation keys (not minimised): %s' % ' '.join(
            skipped_keys[:40]))
    wall = time.time() - t0
    distinct = len(agg['sigs'])
    faults = {k[6:]: v for k, v in agg['stats'].items()
              if k.startswith('fault:')}
    probes = {k[6:]: v for k, v in agg['stats'].items()
              if k.startswith('probe:')}
    zero = [p for p in getattr(prop, 'EXPECTED_PROBES', [])
            if not probes.get(p)]
    ev = {
        'property_id': prop.ID,
        'tier': tier,
        'seed': args.seed,
        'level': prop.LEVEL,
        'wall_s': round(wall, 3),
        'violations': len(new_violations),
        'assumptions': list(getattr(prop, 'ASSUMPTIONS', [])) + [
            'kernel sockets, DNS, poll and TLS are simulated stand-ins; all '
            'code under /repo/lomond runs unmodified',
            'sampling, not proof: a clean run covers the stated runs only'],
        'coverage': {
            'evaluations': agg['n'],
            'distinct_nontrivial': distinct,
            'rule': prop.RULE,
            'samples': agg['samples'][:4],
            'exhaustive': False,
            'families': dict(agg['fam']),
            'runs_per_hour': int(agg['n'] / wall * 3600) if wall > 0 else 0,
            'workers': workers,
            'seeds': {'base': args.seed, 'derivation':
                      'sha256(VERIF_SEED/property/family/index)'},
            'simulated_seconds': round(agg['sim_us'] / 1e6, 3),
            'faults_fired': faults,
            'probes': probes,
            'probes_stuck_at_zero': zero,
            'cases_with_violation': agg['nviol'],
            'known_findings_reported': reported_known,
            'cross_property_observations': dict(agg['xobs']),
            'determinism_sample': {'pairs': agg['det_pairs'],
                                   'mismatches': len(agg['det_mismatch'])},
            'real_components': getattr(prop, 'REAL', [
                'all of /repo/lomond (session loop, selectors, parsers, '
                'websocket, compression, persist)']),
            'stubbed_components': getattr(prop, 'STUBS', [
                'kernel socket', 'DNS', 'select.poll', 'TLS (record/pending '
                'model)', 'time.time', 'os.urandom', 'random()', 'peer',
                'application', 'threading.Lock (SoloLock in single-threaded '
                'runs, the scheduler\'s SimLock in ThreadSim families; also '
                'for locks lomond creates at import time)', 'GIL scheduling '
                'in ThreadSim families (real threads, one released at a time '
                'by the seeded scheduler)', 'logging handler (formats every '
                'record and drops it; DEBUG level in one run of six)']),
        },
    }
    extra = getattr(prop, 'evidence_extra', None)
    if extra is not None:
        ev['coverage'].update(extra(tier, agg))
    if harness_error:
        ev['coverage']['harness_error'] = harness_error[:2000]
    if not args.no_evidence:
        os.makedirs(EVIDENCE_DIR, exist_ok=True)
        with open(os.path.join(EVIDENCE_DIR, prop.ID + '.json'), 'w') as f:
            json.dump(ev, f, indent=1, sort_keys=True, default=str)
    print('%s tier=%s seed=%d runs=%d distinct=%d sim_s=%.0f wall=%.1fs '
          'violations=%d known=%d' % (
              prop.ID, tier, args.seed, agg['n'], distinct,
              agg['sim_us'] / 1e6, wall, len(new_violations),
              len(reported_known)))
    if zero:
        print('warning: probes stuck at zero: %s' % ', '.join(zero))
    if harness_error:
        print('HARNESS-ERROR %s' % harness_error)
        return 2
    if agg['n'] == 0:
        print('HARNESS-ERROR no case executed')
        return 2
    return 1 if new_violations else 0
