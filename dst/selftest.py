"""Determinism self-test.

For every built property: N seeds are executed twice in this process, once
more in a fresh interpreter under a different PYTHONHASHSEED, and in forked
pools of different sizes; the SHA-256 digests of the full traces must agree.
Also cross-checks the two UTF-8 references against each other.
Exit 0 on agreement, 2 (harness error) otherwise.
"""
import argparse
import concurrent.futures
import copy
import gc
import glob
import importlib
import json
import multiprocessing
import os
import subprocess
import sys

from . import bootstrap
from . import scen as S


def prop_names():
    d = os.path.join(bootstrap.VERIF_DIR, 'dst', 'props')
    return sorted(os.path.basename(p)[:-3]
                  for p in glob.glob(os.path.join(d, 'C[0-9][0-9].py')))


def _indices(prop, tier, per_family):
    out = []
    for fam, count in prop.plan(tier):
        n = min(count, per_family)
        # spread over the family
        stepv = max(1, count // n)
        out.extend((fam, i) for i in range(0, stepv * n, stepv))
    return out


def digests_for(name, idxs, seed=0, tier='quick'):
    prop = importlib.import_module('dst.props.' + name)
    out = {}
    for fam, i in idxs:
        rng = S.rng_for(seed, prop.ID + '/' + fam, i)
        case = prop.make_case(fam, i, rng, tier)
        if case is None:
            continue
        if (i + len(fam)) % 3 == 1:
            case['_debug_log'] = True       # DEBUG logging of lomond on
        from . import runner
        res = runner._execute(prop, case)
        out['%s/%d' % (fam, i)] = res.digest
        if len(out) % 100 == 0:
            gc.collect()
    return out


def _pool_job(args):
    name, idxs = args
    return digests_for(name, idxs)


def utf8_references_agree():
    """RFC 3629 table vs CPython's incremental decoder on all strings up to
    length 4 over a boundary alphabet."""
    import codecs
    import itertools
    from . import peer
    alpha = [0x00, 0x7F, 0x80, 0x8F, 0x90, 0x9F, 0xA0, 0xBF, 0xC0, 0xC1, 0xC2,
             0xDF, 0xE0, 0xE1, 0xEC, 0xED, 0xEE, 0xEF, 0xF0, 0xF1, 0xF3, 0xF4,
             0xF5, 0xFF]
    n = 0
    for ln in range(0, 5):
        for tup in itertools.product(alpha, repeat=ln):
            s = bytes(tup)
            n += 1
            verdict = peer.utf8_scan(s)[0]
            try:
                s.decode('utf-8')
                py = 'valid'
            except UnicodeDecodeError as e:
                py = 'incomplete' if e.reason == 'unexpected end of data' \
                    and _prefix_ok(s) else 'invalid'
            if (verdict == 'valid') != (py == 'valid'):
                return False, 'disagree on %r: table=%s cpython=%s' % (
                    s, verdict, py)
            # fail index, second definition: the first i such that no
            # completion of s[:i+1] decodes under CPython's strict decoder
            if verdict == 'invalid':
                idx = peer.utf8_scan(s)[1]
                fail = None
                for j in range(len(s)):
                    if not _completable(s[:j + 1]):
                        fail = j
                        break
                if fail != idx:
                    return False, 'fail index differs on %r: table=%s ' \
                        'cpython=%s' % (s, idx, fail)
            elif verdict == 'incomplete':
                if not _completable(s):
                    return False, 'table says incomplete, no completion: %r' \
                        % (s,)
    return True, '%d strings' % n


_EXTS = None


def _completable(prefix):
    global _EXTS
    import itertools
    if _EXTS is None:
        c = [0x80, 0x8F, 0x90, 0x9F, 0xA0, 0xBF]
        _EXTS = [bytes(t) for k in range(4)
                 for t in itertools.product(c, repeat=k)]
    for ext in _EXTS:
        try:
            (prefix + ext).decode('utf-8')
            return True
        except UnicodeDecodeError:
            pass
    return False


def _prefix_ok(s):
    from . import peer
    return peer.utf8_scan(s)[0] == 'incomplete'


def main(argv):
    ap = argparse.ArgumentParser()
    ap.add_argument('--reduced', action='store_true')
    ap.add_argument('--dump')
    ap.add_argument('--props', default='')
    ap.add_argument('--per-family', type=int, default=0)
    args = ap.parse_args(argv)
    names = [p for p in args.props.split(',') if p] or prop_names()
    per_family = args.per_family or (12 if args.reduced else 300)

    if args.dump:
        out = {}
        for name in names:
            prop = importlib.import_module('dst.props.' + name)
            out[name] = digests_for(name, _indices(prop, 'quick', per_family))
        with open(args.dump, 'w') as f:
            json.dump(out, f)
        return 0

    ok = True
    if not args.reduced:
        good, msg = utf8_references_agree()
        print('utf8 references: %s (%s)' % ('agree' if good else 'DISAGREE',
                                            msg))
        ok = ok and good
    base = {}
    total = 0
    for name in names:
        prop = importlib.import_module('dst.props.' + name)
        idxs = _indices(prop, 'quick', per_family)
        a = digests_for(name, idxs)
        b = digests_for(name, idxs)
        total += len(a)
        if a != b:
            bad = [k for k in a if a[k] != b.get(k)]
            print('%s: same process, same seed: %d/%d digests differ: %s' % (
                name, len(bad), len(a), bad[:5]))
            ok = False
        base[name] = a
        # pools of different size
        for workers in ((4,) if args.reduced else (3, 16)):
            ctx = multiprocessing.get_context('fork')
            chunks = [idxs[k::workers] for k in range(workers)]
            with concurrent.futures.ProcessPoolExecutor(
                    max_workers=workers, mp_context=ctx) as ex:
                merged = {}
                for d in ex.map(_pool_job, [(name, c) for c in chunks]):
                    merged.update(d)
            if merged != a:
                bad = [k for k in a if a[k] != merged.get(k)]
                print('%s: %d workers: %d digests differ: %s' % (
                    name, workers, len(bad), bad[:5]))
                ok = False
    # fresh interpreter, other hash seed
    tmp = os.path.join(bootstrap.VERIF_DIR, 'replays', '.selftest-%d.json'
                       % os.getpid())
    os.makedirs(os.path.dirname(tmp), exist_ok=True)
    env = dict(os.environ)
    env['PYTHONHASHSEED'] = '12345'
    env['VERIF_KEEP_HASHSEED'] = '1'
    cmd = [sys.executable, os.path.join(bootstrap.VERIF_DIR, 'check'),
           'selftest', '--dump', tmp, '--props', ','.join(names),
           '--per-family', str(per_family)]
    try:
        p = subprocess.run(cmd, env=env, timeout=3000)
        with open(tmp) as f:
            other = json.load(f)
        for name in names:
            if other.get(name) != base[name]:
                bad = [k for k in base[name]
                       if base[name][k] != other.get(name, {}).get(k)]
                print('%s: fresh interpreter (PYTHONHASHSEED=12345): %d '
                      'digests differ: %s' % (name, len(bad), bad[:5]))
                ok = False
    finally:
        try:
            os.unlink(tmp)
        except OSError:
            pass
    print('selftest: %d cases x (2 in-process + pools + fresh interpreter): %s'
          % (total, 'deterministic' if ok else 'MISMATCH'))
    return 0 if ok else 2
