"""Reference models.  Nothing in this file imports lomond.

* RFC 6455 frame encoder (server side, may produce illegal frames on purpose)
  and an incremental decoder for what the client wrote.
* HTTP upgrade request parser + accept digest.
* RFC 3629 recogniser (explicit range table).
* RFC 7692 peer (own zlib contexts).
"""
import base64
import hashlib
import struct
import zlib

GUID = b'258EAFA5-E914-47DA-95CA-C5AB0DC85B11'

OP_CONT, OP_TEXT, OP_BIN, OP_CLOSE, OP_PING, OP_PONG = 0, 1, 2, 8, 9, 10
OPNAME = {0: 'cont', 1: 'text', 2: 'binary', 8: 'close', 9: 'ping', 10: 'pong'}


def accept_for(key):
    """RFC 6455 4.2.2: base64(sha1(key + GUID)); key as sent (bytes)."""
    return base64.b64encode(hashlib.sha1(key + GUID).digest())


# --------------------------------------------------------------------------
# frame encoder (server -> client)

def enc_frame(opcode, payload=b'', fin=1, rsv1=0, rsv2=0, rsv3=0,
              mask=None, lenform=None, declared_len=None):
    """Encode one frame.

    lenform: None = minimal; 16 / 64 force the 2- / 8-byte extended length
    (legal but non-minimal for server frames).  declared_len overrides the
    length field (used for the 2**63 class, where no payload follows).
    mask: None = unmasked (what a server must do); 4 bytes = masked (illegal).
    """
    payload = bytes(payload)
    b0 = (fin << 7) | (rsv1 << 6) | (rsv2 << 5) | (rsv3 << 4) | (opcode & 15)
    n = len(payload) if declared_len is None else declared_len
    mbit = 0x80 if mask is not None else 0
    if lenform is None:
        lenform = 7 if n < 126 else (16 if n < 65536 else 64)
    if lenform == 7:
        assert n < 126
        head = struct.pack('!BB', b0, mbit | n)
    elif lenform == 16:
        assert n < 65536
        head = struct.pack('!BBH', b0, mbit | 126, n)
    else:
        head = struct.pack('!BBQ', b0, mbit | 127, n)
    if mask is not None:
        payload = xor_mask(mask, payload)
        head += bytes(mask)
    return head + payload


def xor_mask(key, data):
    key = bytes(key)
    n = len(data)
    if n == 0:
        return b''
    full = (key * (n // 4 + 1))[:n]
    return (int.from_bytes(data, 'big') ^ int.from_bytes(full, 'big')
            ).to_bytes(n, 'big')


def enc_close_payload(code, reason=b''):
    if code is None:
        return b''
    if isinstance(reason, str):
        reason = reason.encode('utf-8')
    return struct.pack('!H', code) + reason


# --------------------------------------------------------------------------
# decoder for client -> server bytes

class CFrame(object):
    __slots__ = ('fin', 'rsv1', 'rsv2', 'rsv3', 'opcode', 'masked', 'key',
                 'payload', 'start', 'end', 'minimal', 'lenform')

    def __repr__(self):
        return '<%s fin=%d rsv1=%d len=%d @%d>' % (
            OPNAME.get(self.opcode, self.opcode), self.fin, self.rsv1,
            len(self.payload), self.start)

    def summary(self):
        p = self.payload
        return {'op': OPNAME.get(self.opcode, self.opcode), 'fin': self.fin,
                'rsv1': self.rsv1, 'len': len(p),
                'head': p[:16].hex(), 'start': self.start}

    @property
    def close_code(self):
        if self.opcode == OP_CLOSE and len(self.payload) >= 2:
            return struct.unpack('!H', self.payload[:2])[0]
        return None


def decode_frames(data, start=0):
    """Decode a byte string into frames.

    Returns (frames, rest_offset): rest_offset == len(data) when the bytes are
    a whole number of frames; otherwise the offset of the incomplete tail.
    Never raises: structural problems are reported by the validity checker."""
    frames = []
    pos = start
    n = len(data)
    while True:
        if n - pos < 2:
            break
        b0, b1 = data[pos], data[pos + 1]
        ln = b1 & 0x7f
        p = pos + 2
        lenform = 7
        if ln == 126:
            if n - p < 2:
                break
            ln = struct.unpack('!H', data[p:p + 2])[0]
            p += 2
            lenform = 16
        elif ln == 127:
            if n - p < 8:
                break
            ln = struct.unpack('!Q', data[p:p + 8])[0]
            p += 8
            lenform = 64
        masked = b1 >> 7
        key = None
        if masked:
            if n - p < 4:
                break
            key = bytes(data[p:p + 4])
            p += 4
        if n - p < ln:
            break
        payload = bytes(data[p:p + ln])
        if masked:
            payload = xor_mask(key, payload)
        f = CFrame()
        f.fin = b0 >> 7
        f.rsv1 = (b0 >> 6) & 1
        f.rsv2 = (b0 >> 5) & 1
        f.rsv3 = (b0 >> 4) & 1
        f.opcode = b0 & 15
        f.masked = masked
        f.key = key
        f.payload = payload
        f.start = pos
        f.end = p + ln
        f.lenform = lenform
        f.minimal = (lenform == 7 and ln < 126) or \
            (lenform == 16 and 126 <= ln < 65536) or \
            (lenform == 64 and ln >= 65536)
        frames.append(f)
        pos = f.end
    return frames, pos


def client_frame_problems(f, compression):
    """What makes a decoded frame an invalid *client* frame as lomond may
    write it (lomond never fragments): list of short strings."""
    probs = []
    if not f.masked:
        probs.append('unmasked')
    if not f.fin:
        probs.append('fin_clear')
    if f.rsv2 or f.rsv3:
        probs.append('rsv23')
    if f.rsv1 and (not compression or f.opcode not in (OP_TEXT, OP_BIN)):
        probs.append('rsv1')
    if f.opcode not in (OP_TEXT, OP_BIN, OP_CLOSE, OP_PING, OP_PONG):
        probs.append('opcode')
    if not f.minimal:
        probs.append('nonminimal_length')
    if f.opcode >= 8 and len(f.payload) > 125:
        probs.append('control_too_long')
    return probs


# --------------------------------------------------------------------------
# HTTP request (client -> server)

class ParsedRequest(object):
    def __init__(self):
        self.ok = False
        self.problems = []
        self.method = self.target = self.version = None
        self.headers = []      # list of (name bytes, value bytes) in order
        self.end = None        # offset just after the blank line

    def get_all(self, name):
        name = name.lower()
        return [v for k, v in self.headers if k.lower() == name]

    def get(self, name):
        vals = self.get_all(name)
        return vals[0] if vals else None


def parse_request(data):
    """Independent, strict parser of the upgrade request the client wrote."""
    r = ParsedRequest()
    idx = data.find(b'\r\n\r\n')
    if idx < 0:
        r.problems.append('no_terminator')
        return r
    r.end = idx + 4
    head = data[:idx]
    lines = head.split(b'\r\n')
    reqline = lines[0].split(b' ')
    if len(reqline) != 3:
        r.problems.append('request_line_shape')
        return r
    r.method, r.target, r.version = reqline
    if r.method != b'GET':
        r.problems.append('method')
    if r.version != b'HTTP/1.1':
        r.problems.append('version')
    if not r.target.startswith(b'/'):
        r.problems.append('target')
    for ln in lines[1:]:
        if b'\r' in ln or b'\n' in ln:
            r.problems.append('bare_cr_or_lf')
        name, sep, value = ln.partition(b':')
        if not sep or not name or name != name.strip() or b' ' in name:
            r.problems.append('header_shape:%r' % ln[:40])
            continue
        r.headers.append((name, value.strip()))
    r.ok = not r.problems
    return r


# --------------------------------------------------------------------------
# RFC 3629 recogniser.  Table 3-7 of the Unicode standard as explicit ranges.

_U8_TABLE = (
    # (first byte lo, hi, [ (lo,hi) for each continuation byte ])
    (0x00, 0x7F, ()),
    (0xC2, 0xDF, ((0x80, 0xBF),)),
    (0xE0, 0xE0, ((0xA0, 0xBF), (0x80, 0xBF))),
    (0xE1, 0xEC, ((0x80, 0xBF), (0x80, 0xBF))),
    (0xED, 0xED, ((0x80, 0x9F), (0x80, 0xBF))),
    (0xEE, 0xEF, ((0x80, 0xBF), (0x80, 0xBF))),
    (0xF0, 0xF0, ((0x90, 0xBF), (0x80, 0xBF), (0x80, 0xBF))),
    (0xF1, 0xF3, ((0x80, 0xBF), (0x80, 0xBF), (0x80, 0xBF))),
    (0xF4, 0xF4, ((0x80, 0x8F), (0x80, 0xBF), (0x80, 0xBF))),
)


def utf8_scan(data):
    """Return ('valid', None) | ('incomplete', i) | ('invalid', i).

    'invalid', i: data[i] is the first byte after which no well-formed
    continuation exists (the earliest moment a fail-fast validator can know).
    'incomplete', i: data is a proper prefix of a well-formed string; the
    unfinished sequence starts at i."""
    i = 0
    n = len(data)
    while i < n:
        b = data[i]
        row = None
        for lo, hi, conts in _U8_TABLE:
            if lo <= b <= hi:
                row = conts
                break
        if row is None:
            return ('invalid', i)
        j = i + 1
        for lo, hi in row:
            if j >= n:
                return ('incomplete', i)
            if not (lo <= data[j] <= hi):
                return ('invalid', j)
            j += 1
        i = j
    return ('valid', None)


def utf8_valid(data):
    return utf8_scan(data)[0] == 'valid'


# --------------------------------------------------------------------------
# RFC 7692 peer

class DeflatePeer(object):
    """An independent permessage-deflate endpoint (the *server*).

    server_bits: window the server compresses with (client decompresses)
    client_bits: window the client compresses with (server decompresses)
    """

    def __init__(self, server_bits=15, client_bits=15, server_nct=False,
                 client_nct=False, level=6, strategy=0):
        self.server_bits = server_bits
        self.client_bits = client_bits
        self.server_nct = server_nct
        self.client_nct = client_nct
        self.level = level
        self.strategy = strategy
        self._c = None
        self._d = None

    def _new_c(self):
        return zlib.compressobj(self.level, zlib.DEFLATED,
                                -max(9, self.server_bits), 8, self.strategy)

    def _new_d(self):
        return zlib.decompressobj(-self.client_bits)

    def compress(self, payload, reset=False):
        """Compress one message (server -> client)."""
        if self._c is None or self.server_nct or reset:
            self._c = self._new_c()
        out = self._c.compress(payload) + self._c.flush(zlib.Z_SYNC_FLUSH)
        assert out[-4:] == b'\x00\x00\xff\xff'
        return out[:-4]

    def decompress(self, payload):
        """Inflate one client message in wire order; raises zlib.error."""
        if self._d is None or self.client_nct:
            self._d = self._new_d()
        # feed the inflater in small pieces: zlib checks match distances
        # against the negotiated window only for data that is no longer in
        # the output buffer of the current call, so one big call would
        # accept back-references beyond 2**client_bits
        data = payload + b'\x00\x00\xff\xff'
        parts = []
        for i in range(0, len(data), 16):
            parts.append(self._d.decompress(data[i:i + 16]))
        if self._d.unused_data:
            raise zlib.error('trailing data after deflate stream')
        return b''.join(parts)
